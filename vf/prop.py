"""Job runner shared by the per-property scripts: runs jobs in forked workers, collects obligations,
violations and inconclusive notes, and hands everything to the CLI for replay / known-finding triage."""
import json
import multiprocessing
import os
import signal
import time
import traceback
import z3

from .engine import Exec, Inconclusive, Violation
from .values import *  # noqa

_PROG = None
_JOBS = None
_TIER = None


class JobOut:
    """what a job reports (JSON-able)"""

    def __init__(self, name):
        self.name = name
        self.obligations = 0
        self.discharged = 0
        self.queries = 0
        self.solver_s = 0.0
        self.paths = 0
        self.path_classes = {}
        self.violations = []      # dicts: key, kind, msg, site, model, replay (optional)
        self.inconclusive = []    # strings
        self.functions = []
        self.bounds = {}
        self.assumptions = []
        self.samples = []
        self.notes = []
        self.wall_s = 0.0
        self.vacuity = []         # (description, ok)
        self.opaque_calls = {}
        self.smt2 = []            # paths of dumped obligations (for the second solver)
        self.deferred = []        # heavy obligations solved in a second phase by the worker pool

    def to_dict(self):
        return self.__dict__


class Ctx:
    """per-job helper wrapping an Exec"""

    def __init__(self, prog, name, tier, seed):
        self.prog = prog
        self.tier = tier
        self.seed = seed
        self.out = JobOut(name)
        self.execs = []

    def new_exec(self, **kw):
        ex = Exec(self.prog, **kw)
        self.execs.append(ex)
        return ex

    def prove(self, ex, p, cond, msg, site, kind='property', replay=None, extra_inputs=None):
        """obligation over a finished path: pcs => cond"""
        self.out.obligations += 1
        c = z3.simplify(cond)
        if z3.is_true(c):
            self.out.discharged += 1
            return True
        sat, model = ex.check(p.pcs + [z3.Not(c)])
        if not sat:
            self.out.discharged += 1
            return True
        model = ex.small_model(p.pcs + [z3.Not(c)], model)
        saved = ex.inputs
        if extra_inputs:
            ex.inputs = dict(saved)
            ex.inputs.update(extra_inputs)
        m = ex.concretize(model, p)
        ex.inputs = saved
        self.add_violation(kind, msg, site, m, replay(m) if replay else None)
        return False

    def defer(self, ex, p, cond, msg, site, kind='property', replay=None):
        """queue `pcs => cond` for the second phase (fresh non-incremental solver in the worker pool).
        `replay` is (module name, function name) of a function model-dict -> replay spec."""
        c = z3.simplify(cond)
        if z3.is_true(c):
            self.out.obligations += 1
            self.out.discharged += 1
            return
        s = z3.Solver()
        for pc in p.pcs:
            s.add(pc)
        s.add(z3.Not(c))
        names = []
        for name, v in ex.inputs.items():
            if isinstance(v, tuple):
                k = z3.Const('in!' + name, v[0].sort())
                s.add(k == v[0])
                names.append(name)
        self.out.deferred.append(dict(smt2=s.to_smt2(), msg=msg, site=site, kind=kind, replay=replay, inputs=names, job=self.out.name))

    def add_violation(self, kind, msg, site, model, replay=None):
        fn = site.split('@')[0]
        self.out.violations.append(dict(key='%s|%s|%s' % (self.out.name, short_fn(fn), msg), kind=kind, msg=msg, site=site, model=model, replay=replay))

    def witness(self, ex, p, cond, desc):
        """vacuity guard: cond must be satisfiable on this path"""
        sat, _ = ex.check(p.pcs + [cond])
        self.out.vacuity.append((desc, bool(sat)))
        return sat

    def absorb(self, ex, paths, replay_of=None, classes=None):
        """fold an Exec's obligations / violations / inconclusive paths into the job report"""
        o = self.out
        o.obligations += ex.stats.obligations
        o.discharged += ex.stats.discharged
        for v in ex.violations:
            rp = replay_of(v) if replay_of else None
            o.violations.append(dict(key='%s|%s|%s' % (o.name, short_fn(v.fnname), v.msg), kind=v.kind, msg=v.msg, site=v.site, model=v.model, replay=rp))
        ex.violations = []
        ex.stats.obligations = 0
        ex.stats.discharged = 0
        for p in paths:
            o.paths += 1
            cls = p.status
            if classes and p.status == 'return':
                cls = classes(p)
            o.path_classes[cls] = o.path_classes.get(cls, 0) + 1
            if p.status == 'inconclusive':
                o.inconclusive.append(p.note)
            elif p.status == 'unwound':
                o.inconclusive.append('unwinding bound reached at ' + str(p.note))

    def finish(self):
        o = self.out
        for ex in self.execs:
            o.queries += ex.stats.queries
            o.solver_s += ex.stats.solver_s
            o.functions = sorted(set(o.functions) | ex.encoded_fns)
            for k, n in ex.opaque_calls.items():
                o.opaque_calls[k] = o.opaque_calls.get(k, 0) + n
        return o


def short_fn(name):
    import re
    name = re.sub(r'<impl at [^>]*?([\w\-]+/src/[^:>]+):(\d+):\d+: \d+:\d+>', lambda m: '<impl %s>' % m.group(1).split('/src/')[-1], name)
    return name


class JobTimeout(Exception):
    pass


def _alarm(signum, frame):
    raise JobTimeout()


def _run_one(idx):
    name, fn, cap = _JOBS[idx]
    t0 = time.time()
    ctx = Ctx(_PROG, name, _TIER[0], _TIER[1])
    signal.signal(signal.SIGALRM, _alarm)
    signal.alarm(int(cap))
    try:
        try:
            import resource
            lim = 12 * 1024 ** 3
            resource.setrlimit(resource.RLIMIT_AS, (lim, lim))
        except Exception:
            pass
        fn(ctx)
    except JobTimeout:
        ctx.out.inconclusive.append('job exceeded its time cap of %ds' % cap)
    except Inconclusive as e:
        ctx.out.inconclusive.append('inconclusive: %s' % e)
    except MemoryError:
        ctx.out.inconclusive.append('out of memory')
    except Exception as e:
        ctx.out.inconclusive.append('engine error: %s: %s\n%s' % (type(e).__name__, e, traceback.format_exc()[-1500:]))
    finally:
        signal.alarm(0)
    o = ctx.finish()
    o.wall_s = time.time() - t0
    return idx, o.to_dict()


def _solve_deferred(item):
    idx, d = item
    t0 = time.time()
    status, model, reason = 'unknown', None, ''
    try:
        fs = z3.parse_smt2_string(d['smt2'])
        for mk, to in ((lambda: z3.Solver(), 120000), (lambda: z3.Tactic('qfaufbv').solver(), 600000)):
            try:
                s = mk()
                s.set('timeout', to)
                s.add(fs)
                r = s.check()
            except z3.Z3Exception as e:
                reason = str(e)
                continue
            if r == z3.unsat:
                status = 'unsat'
                break
            if r == z3.sat:
                status = 'sat'
                m = s.model()
                model = {}
                for name in d['inputs']:
                    for decl in m.decls():
                        if decl.name() == 'in!' + name:
                            v = m[decl]
                            model[name] = bool(z3.is_true(v)) if z3.is_bool(v) else v.as_long()
                break
            reason = s.reason_unknown()
    except Exception as e:  # pragma: no cover
        reason = '%s: %s' % (type(e).__name__, e)
    return idx, status, model, reason, time.time() - t0


def run_deferred(results, workers):
    """second phase: discharge the deferred obligations of all jobs in the pool; folds the verdicts back into the job dicts"""
    items = []
    for ji, r in enumerate(results):
        for d in r.get('deferred', []):
            items.append(((ji, len(items)), d))
    if not items:
        return
    ctxm = multiprocessing.get_context('fork')
    with ctxm.Pool(workers) as pool:
        for (ji, _k), status, model, reason, secs in pool.imap_unordered(_solve_deferred, items, chunksize=1):
            r = results[ji]
            d = next(d for (jj, kk), d in items if (jj, kk) == (ji, _k))
            r['obligations'] += 1
            r['queries'] += 1
            r['solver_s'] += secs
            if status == 'unsat':
                r['discharged'] += 1
            elif status == 'sat':
                rp = None
                if d.get('replay'):
                    import importlib
                    rp = getattr(importlib.import_module(d['replay'][0]), d['replay'][1])(model)
                r['violations'].append(dict(key='%s|%s|%s' % (r['name'], short_fn(d['site'].split('@')[0]), d['msg']), kind=d['kind'], msg=d['msg'], site=d['site'],
                                            model=model, replay=rp))
            else:
                r['inconclusive'].append('deferred obligation undecided (%s): %s' % (reason, d['msg']))
    for r in results:
        r['deferred'] = len(r.get('deferred', []))


def run_jobs(prog, jobs, tier, seed, workers=None):
    """jobs: list of (name, callable(ctx), cap seconds).  Returns list of job dicts in job order."""
    global _PROG, _JOBS, _TIER
    _PROG, _JOBS, _TIER = prog, jobs, (tier, seed)
    order = list(range(len(jobs)))
    # VERIF_SEED only permutes scheduling
    import random
    random.Random(seed).shuffle(order)
    workers = workers or min(16, max(1, len(jobs)))
    results = [None] * len(jobs)
    if workers == 1 or len(jobs) == 1 or os.environ.get('VERIF_SERIAL'):
        for i in order:
            _, d = _run_one(i)
            results[i] = d
        run_deferred(results, workers or 16)
        return results
    ctxm = multiprocessing.get_context('fork')
    with ctxm.Pool(workers, maxtasksperchild=1) as pool:
        for i, d in pool.imap_unordered(_run_one, order):
            results[i] = d
    run_deferred(results, 16)
    return results
