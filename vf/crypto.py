"""Contract models for the cryptographic and randomness primitives (external crates).

Two families, selected per Exec via `install(ex, mode)`:
  havoc : `open` may fail; on success the plaintext is a fresh arbitrary byte string of the right length
          (sound over-approximation for "no input can crash", including authenticated-but-malformed content);
  ideal : INT-CTXT idealisation with a ghost log (vf.ideal), used for C05/C06/C10/C12/C01/C02/C03.
The repo's own wrappers (CipherMethod::*, Authenticator::*, Aes*EcbNoPadding, kdf callers) are executed from their MIR;
only the calls that leave the repository are modelled here.
"""
import re
import z3

from .values import *  # noqa
from .engine import Inconclusive, copy_into
from .models import one, U, B, target_ref, bytes_equal

TAG = 16
PROV = {}   # z3 array ast id -> provenance tag of derived key material


def prov(ex, st, v):
    try:
        arr, _off, _ln = ex.bytes_view(st, v)
    except Exception:
        return 'opaque'
    return PROV.get(arr.get_id(), 'in:' + str(arr)[:40])


def tag_prov(arr, tag):
    PROV[arr.get_id()] = tag
    return arr


def log_call(ex, p, op, cipher, nonce):
    na, no, nl = ex.bytes_view(p.st, nonce)
    key = cipher.why if isinstance(cipher, Opaque) else (getattr(ex.deref_all(p.st, cipher), 'why', 'cipher') if isinstance(cipher, Ref) else 'cipher')
    ent = (op, na, no, nl, key)
    return lambda q: q.ghost.setdefault('aead_calls', []).append(ent)



def typenum(txt):
    """value of a typenum UInt<...<UTerm, B1>, B0>...> type expression (MSB first)"""
    bits = re.findall(r'\bB([01])\b', txt)
    if not bits and 'UTerm' in txt:
        return 0
    return int(''.join(bits), 2) if bits else None


def _fresh_arr(prefix):
    return fresh_bytes(prefix)


def havoc_models():
    M = []

    def model(pattern):
        rx = re.compile(pattern)

        def deco(f):
            M.append((rx, f))
            return f
        return deco

    @model(r'^<&\[u8\] as (?:std::convert::)?Into<&(?:mut )?(?:\w+::)*GenericArray<u8, (.+)>>>::into$|^(?:\w+::)*GenericArray::<u8, (.+)>::(?:from_slice|from_mut_slice)$')
    def _ga_from_slice(ex, p, m, a, func, fr):
        n = typenum(m.group(1) or m.group(2))
        _arr, _off, ln = ex.bytes_view(p.st, a[0])
        return one(a[0], oblig=[(ln == bv64(n), 'GenericArray::from_slice: slice length must be %d' % n)])

    @model(r'^<\[u8; \w+\] as (?:std::convert::)?Into<(?:\w+::)*GenericArray<u8, .+>>>::into$|^<(?:\w+::)*GenericArray<u8, .+> as (?:std::convert::)?Into<\[u8; \w+\]>>::into$|'
           r'^<(?:\w+::)*GenericArray<u8, .+> as (?:std::ops::)?Deref(?:Mut)?>::deref(?:_mut)?$|^(?:\w+::)*GenericArray::<u8, .+>::(?:as_slice|as_mut_slice)$|'
           r'^<(?:\w+::)*GenericArray<u8, .+> as (?:std::convert::)?AsRef<\[u8\]>>::as_ref$|^<(?:\w+::)*GenericArray<u8, .+> as (?:std::convert::)?From<\[u8; \w+\]>>::from$')
    def _ga_identity(ex, p, m, a, func, fr):
        return one(a[0])

    @model(r'^<(?:\w+::)*GenericArray<u8, (.+)> as (?:std::default::)?Default>::default$')
    def _ga_default(ex, p, m, a, func, fr):
        return one(Arr(z3.K(BV64, bvv(0, 8)), 'u8', typenum(m.group(1))))

    @model(r' as (?:\w+::)*KeyInit>::new$')
    def _keyinit_new(ex, p, m, a, func, fr):
        return one(Opaque('cipher[key=%s]' % prov(ex, p.st, a[0])))

    @model(r' as (?:\w+::)*KeyInit>::new_from_slice$')
    def _keyinit_new_from_slice(ex, p, m, a, func, fr):
        # Err(InvalidLength) when the key has the wrong size; the size is fixed by the cipher type in the callee text
        _arr, _off, ln = ex.bytes_view(p.st, a[0])
        want = None
        if 'Aes128' in func:
            want = 16
        elif 'Aes256' in func or 'ChaCha' in func:
            want = 32
        if want is None:
            ok = fresh('keylen_ok', z3.BoolSort())
        else:
            ok = ln == bv64(want)
        return [dict(cond=ok, value=res_ok(Opaque('cipher'))), dict(cond=z3.Not(ok), value=res_err(Opaque('InvalidLength')))]

    @model(r' as (?:\w+::)*AeadInPlace>::decrypt_in_place$')
    def _dec_in_place(ex, p, m, a, func, fr):
        r = a[3]
        tr = target_ref(ex, p, r)
        b = ex.load(p.st, tr.base, tr.proj)
        ok = fresh('aead_ok', z3.BoolSort())
        good = z3.And(ok, z3.UGE(b.len, bv64(TAG)))
        pt = _fresh_arr('pt')
        nb = b.with_(arr=pt, off=bv64(0), len=b.len - bv64(TAG))

        lg = log_call(ex, p, 'open', a[0], a[1])

        def app_ok(q):
            ex.store(q.st, tr.base, tr.proj, nb)
            q.ghost.setdefault('opens', []).append(('ok', pt, b.len - bv64(TAG)))
            lg(q)
        return [dict(cond=good, value=res_ok(U()), apply=app_ok),
                dict(cond=z3.Not(good), value=res_err(Opaque('aead::Error')), apply=lambda q: (q.ghost.setdefault('opens', []).append(('fail',)), lg(q)))]

    @model(r' as (?:\w+::)*AeadInPlace>::decrypt_in_place_detached$')
    def _dec_detached(ex, p, m, a, func, fr):
        s = ex.as_sref(p.st, a[3])
        ok = fresh('aead_ok', z3.BoolSort())
        pt = _fresh_arr('pt')

        lg = log_call(ex, p, 'open', a[0], a[1])

        def app(q):
            ex.bytes_fill(q.st, s, pt, bv64(0), s.len)
            q.ghost.setdefault('opens', []).append(('ok', pt, s.len))
            lg(q)
        return [dict(cond=ok, value=res_ok(U()), apply=app),
                dict(cond=z3.Not(ok), value=res_err(Opaque('aead::Error')), apply=lambda q: (q.ghost.setdefault('opens', []).append(('fail',)), lg(q)))]

    @model(r' as (?:\w+::)*AeadInPlace>::encrypt_in_place$')
    def _enc_in_place(ex, p, m, a, func, fr):
        r = a[3]
        tr = target_ref(ex, p, r)
        b = ex.load(p.st, tr.base, tr.proj)
        ct = _fresh_arr('ct')
        nb = b.with_(arr=copy_into(b.arr, b.off, ct, bv64(0), b.len + bv64(TAG)), len=b.len + bv64(TAG))
        lg = log_call(ex, p, 'seal', a[0], a[1])
        pt_snapshot = ('seal', b.arr, b.off, b.len)

        def app(q):
            ex.store(q.st, tr.base, tr.proj, nb)
            lg(q)
            q.ghost.setdefault('seals', []).append(pt_snapshot)
        return [dict(value=res_ok(U()), apply=app)]

    @model(r' as (?:\w+::)*AeadInPlace>::encrypt_in_place_detached$')
    def _enc_detached(ex, p, m, a, func, fr):
        s = ex.as_sref(p.st, a[3])
        lg = log_call(ex, p, 'seal', a[0], a[1])
        sa, so, sl = ex.bytes_view(p.st, s)
        pt_snapshot = ('seal', sa, so, sl)

        def app(q):
            ex.bytes_fill(q.st, s, _fresh_arr('ct'), bv64(0), s.len)
            lg(q)
            q.ghost.setdefault('seals', []).append(pt_snapshot)
        return [dict(value=res_ok(Arr(_fresh_arr('tag'), 'u8', TAG)), apply=app)]

    @model(r' as (?:\w+::)*Aead>::(encrypt|decrypt)::<.*>$')
    def _aead_vec(ex, p, m, a, func, fr):
        payload = a[2]
        msg = payload.fields[0] if isinstance(payload, Agg) else payload
        _arr, _off, ln = ex.bytes_view(p.st, msg)
        if m.group(1) == 'encrypt':
            return [dict(value=res_ok(Buf('vec', _fresh_arr('ct'), bv64(0), ln + bv64(TAG))))]
        ok = fresh('aead_ok', z3.BoolSort())
        good = z3.And(ok, z3.UGE(ln, bv64(TAG)))
        pt = _fresh_arr('pt')
        return [dict(cond=good, value=res_ok(Buf('vec', pt, bv64(0), ln - bv64(TAG))), apply=lambda q: q.ghost.setdefault('aead_vec', []).append(('ok', pt, ln - bv64(TAG)))),
                dict(cond=z3.Not(good), value=res_err(Opaque('aead::Error')), apply=lambda q: q.ghost.setdefault('aead_vec', []).append(('fail',)))]

    # ---- block ciphers (AES-ECB single blocks) ----
    @model(r' as (?:\w+::)*Block(?:Encrypt|Decrypt)>::(?:encrypt_block|decrypt_block)$')
    def _block(ex, p, m, a, func, fr):
        s = ex.as_sref(p.st, a[1])

        def app(q):
            ex.bytes_fill(q.st, s, _fresh_arr('blk'), bv64(0), s.len)
        return one(U(), apply=app)

    @model(r'^(?:\w+::)*Block::from_mut_slice$|^(?:\w+::)*GenericArray::<u8, .+>::from_mut_slice$')
    def _block_from_mut(ex, p, m, a, func, fr):
        s = ex.as_sref(p.st, a[0])
        return one(s, oblig=[(s.len == bv64(16), 'Block::from_mut_slice: slice length must be 16')])

    @model(r'(?:Encryptor|Decryptor)<.*> as (?:\w+::)*KeyInit>::new_from_slice$')
    def _ecb_new(ex, p, m, a, func, fr):
        _arr, _off, ln = ex.bytes_view(p.st, a[0])
        want = 16 if 'Aes128' in func else 32
        ok = ln == bv64(want)
        return [dict(cond=ok, value=res_ok(Opaque('ecb'))), dict(cond=z3.Not(ok), value=res_err(Opaque('InvalidLength')))]

    @model(r' as (?:\w+::)*BlockEncryptMut>::encrypt_padded_mut::<.*NoPadding>$')
    def _ecb_enc(ex, p, m, a, func, fr):
        s = ex.as_sref(p.st, a[1])
        n = a[2][0]
        ok = z3.And(z3.ULE(n, s.len), z3.URem(n, bv64(16)) == 0)

        def app(q):
            ex.bytes_fill(q.st, s, _fresh_arr('ecb'), bv64(0), n)
        return [dict(cond=ok, value=res_ok(s), apply=app), dict(cond=z3.Not(ok), value=res_err(Opaque('PadError')))]

    @model(r' as (?:\w+::)*BlockDecryptMut>::decrypt_padded_mut::<.*NoPadding>$')
    def _ecb_dec(ex, p, m, a, func, fr):
        s = ex.as_sref(p.st, a[1])
        ok = z3.URem(s.len, bv64(16)) == 0

        def app(q):
            ex.bytes_fill(q.st, s, _fresh_arr('ecb'), bv64(0), s.len)
        return [dict(cond=ok, value=res_ok(s), apply=app), dict(cond=z3.Not(ok), value=res_err(Opaque('UnpadError')))]

    @model(r'^<(?:\w+::)*Aes(128|256) as (?:\w+::)*KeySizeUser>::key_size$')
    def _key_size(ex, p, m, a, func, fr):
        return one((bv64(int(m.group(1)) // 8), 'usize'))

    # ---- hashes / KDF / XOF: fresh outputs ----
    @model(r'^(?:blake3::)?derive_key$')
    def _b3_derive(ex, p, m, a, func, fr):
        return one(Arr(_fresh_arr('blake3key'), 'u8', 32))

    @model(r'^(?:blake3::)?hash$')
    def _b3_hash(ex, p, m, a, func, fr):
        return one(Agg('struct', (Arr(_fresh_arr('blake3hash'), 'u8', 32),), 'Hash'))

    @model(r'^blake3::Hash::as_bytes$')
    def _b3_as_bytes(ex, p, m, a, func, fr):
        r = a[0]
        tr = target_ref(ex, p, r)
        return one(Ref(tr.base, tr.proj + (('field', 0),)))

    @model(r' as (?:\w+::)*XofReader>::read$')
    def _xof_read(ex, p, m, a, func, fr):
        s = ex.as_sref(p.st, a[1])
        xo = _fresh_arr('xof')

        def app(q):
            ex.bytes_fill(q.st, s, xo, bv64(0), s.len)
            q.ghost.setdefault('xof', []).append(('ok', xo, s.len))
        return one(U(), apply=app)

    @model(r'^(?:\w+::)*Crc::<u32>::(new|checksum)$')
    def _crc(ex, p, m, a, func, fr):
        if m.group(1) == 'new':
            return one(Opaque('crc'))
        return one((fresh('crc32', z3.BitVecSort(32)), 'u32'))

    # ---- randomness: arbitrary values ----
    @model(r'^(?:rand::)?random::<(u8|u16|u32|u64|i32|i64|usize)>$')
    def _random_int(ex, p, m, a, func, fr):
        from .mir import INT_BITS
        return one((fresh('rand', z3.BitVecSort(INT_BITS[m.group(1)])), m.group(1)))

    @model(r'^(?:rand::)?random::<\[u8; (\d+)\]>$')
    def _random_arr(ex, p, m, a, func, fr):
        return one(Arr(_fresh_arr('rand'), 'u8', int(m.group(1))))

    @model(r'^(?:rand::)?rng$')
    def _rng(ex, p, m, a, func, fr):
        return one(Opaque('rng'))

    @model(r' as (?:rand::)?(?:RngCore|Rng)>::(fill_bytes|fill::<.*>)$')
    def _fill_bytes(ex, p, m, a, func, fr):
        s = ex.as_sref(p.st, a[1])

        def app(q):
            ex.bytes_fill(q.st, s, _fresh_arr('rand'), bv64(0), s.len)
        return one(U(), apply=app)

    @model(r' as (?:rand::)?Rng>::random_range::<(u8|u16|u32|u64|i32|usize), (?:std::ops::)?(RangeInclusive|Range)<\w+>>$')
    def _random_range(ex, p, m, a, func, fr):
        from .mir import INT_BITS, SIGNED
        ty = m.group(1)
        v = fresh('rand', z3.BitVecSort(INT_BITS[ty]))
        rng = a[1]
        lo, hi = rng.fields[0][0], rng.fields[1][0]
        sg = ty in SIGNED
        if m.group(2) == 'RangeInclusive':
            c = z3.And((lo <= v) if sg else z3.ULE(lo, v), (v <= hi) if sg else z3.ULE(v, hi))
            pre = (lo <= hi) if sg else z3.ULE(lo, hi)
        else:
            c = z3.And((lo <= v) if sg else z3.ULE(lo, v), (v < hi) if sg else z3.ULT(v, hi))
            pre = (lo < hi) if sg else z3.ULT(lo, hi)
        return one((v, ty), oblig=[(pre, 'random_range: empty range')], assume=c)

    return M


def install(ex, mode='havoc'):
    for rx, h in havoc_models():
        ex.overrides.append((rx, h))
