"""Builds /verif/replay against /repo's working tree (dev and release) and runs one spec."""
import os
import shutil
import subprocess

from . import build

REPLAY_DIR = os.path.join(build.VERIF, 'replay')
TARGET = os.path.join(build.BUILD, 'replay-target')
_built = {}


def _replay_dir():
    """the crate in place for /repo; a path-substituted copy when checking another tree (VERIF_REPO)"""
    if build.REPO == '/repo':
        return REPLAY_DIR
    dst = os.path.join(build.BUILD, 'replay-src')
    if os.path.exists(dst):
        shutil.rmtree(dst)
    shutil.copytree(REPLAY_DIR, dst, ignore=shutil.ignore_patterns('target', 'Cargo.lock'))
    t = open(os.path.join(dst, 'Cargo.toml')).read().replace('"/repo/', '"%s/' % build.REPO)
    open(os.path.join(dst, 'Cargo.toml'), 'w').write(t)
    return dst


def ensure_built(profile):
    if profile in _built:
        return _built[profile]
    rdir = _built.setdefault('#dir', _replay_dir())
    shutil.copyfile(os.path.join(build.REPO, 'Cargo.lock'), os.path.join(rdir, 'Cargo.lock'))
    env = dict(os.environ)
    env['CARGO_NET_OFFLINE'] = 'true'
    env.pop('RUSTFLAGS', None)
    cmd = ['cargo', 'build', '--offline', '--target-dir', TARGET]
    if profile == 'release':
        cmd.append('--release')
    r = subprocess.run(cmd, cwd=rdir, env=env, stdout=subprocess.PIPE, stderr=subprocess.STDOUT, text=True)
    if r.returncode != 0:
        _built[profile] = (None, r.stdout[-3000:])
    else:
        _built[profile] = (os.path.join(TARGET, 'release' if profile == 'release' else 'debug', 'vf-replay'), '')
    return _built[profile]


def run_replay(spec_path, profile):
    """returns (reproduced: bool|None, output)"""
    exe, err = ensure_built(profile)
    if exe is None:
        return (None, 'replay crate does not build against the working tree:\n' + err)
    try:
        r = subprocess.run([exe, spec_path], stdout=subprocess.PIPE, stderr=subprocess.STDOUT, text=True, timeout=120)
    except subprocess.TimeoutExpired:
        return (True, 'REPRODUCED: native run did not terminate within 120 s')
    out = r.stdout
    if r.returncode not in (0, 3) and 'REPRODUCED' not in out:
        # abort / signal (e.g. stack overflow, abort on double panic)
        return (True, 'REPRODUCED: process died with status %d\n%s' % (r.returncode, out[-800:]))
    if 'REPRODUCED:' in out and 'NOT-REPRODUCED' not in out:
        return (True, out)
    if 'UNUSABLE' in out:
        return (None, out)
    return (False, out)
