"""Engine M: bounded symbolic execution of rustc MIR into z3 (paths, not merges).

A `Path` owns a flat state (frame-prefixed locals -> values), a path condition and an explicit call
stack; repo functions are inlined by pushing frames, everything else goes through the call-model
registry (vf.models) or becomes an opaque value.  Proof obligations (MIR `assert` terminators,
contract preconditions of library calls, reachable panics) are discharged the moment they are met,
so a path prefix is checked exactly once however many paths fork from it later.
"""
import re
import time
import functools
import z3

from .mir import INT_BITS, SIGNED, split_top, balanced, strip_generics
from .values import *  # noqa


class Inconclusive(Exception):
    pass


GLOBALS = {}   # immutable constant cells shared by all paths (promoted temporaries)


class Frame:
    __slots__ = ('fn', 'id', 'bb', 'visits', 'dest', 'ret_bb', 'post', 'caller')

    def __init__(self, fn, id_, dest=None, ret_bb=None, post=None, caller=None):
        self.fn, self.id, self.bb, self.visits = fn, id_, 'bb0', {}
        self.dest, self.ret_bb, self.post, self.caller = dest, ret_bb, post, caller

    def copy(self):
        f = Frame(self.fn, self.id, self.dest, self.ret_bb, self.post, self.caller)
        f.bb = self.bb
        f.visits = dict(self.visits)
        return f


class Path:
    __slots__ = ('st', 'pcs', 'frames', 'ghost', 'nframe', 'status', 'ret', 'note', 'nheap')

    def __init__(self):
        self.st = {}
        self.pcs = []
        self.frames = []
        self.ghost = {}
        self.nframe = 0
        self.nheap = 0
        self.status = 'running'
        self.ret = None
        self.note = None

    def fork(self):
        q = Path()
        q.st = dict(self.st)
        q.pcs = list(self.pcs)
        q.frames = [f.copy() for f in self.frames]
        q.ghost = {k: (list(v) if isinstance(v, list) else (dict(v) if isinstance(v, dict) else v)) for k, v in self.ghost.items()}
        q.nframe = self.nframe
        q.nheap = self.nheap
        return q

    def alloc(self, val, tag='h'):
        self.nheap += 1
        key = '#%s%d' % (tag, self.nheap)
        self.st[key] = val
        return Ref(key, ())


WELL_KNOWN_DISC = {'Ok': 0, 'Err': 1, 'None': 0, 'Some': 1, 'Continue': 0, 'Break': 1, 'Ready': 0, 'Pending': 1,
                   'Less': -1, 'Equal': 0, 'Greater': 1, 'Borrowed': 0, 'Owned': 1, 'V4': 0, 'V6': 1}
WELL_KNOWN_ENUM = {'Ok': 'Result', 'Err': 'Result', 'None': 'Option', 'Some': 'Option', 'Continue': 'ControlFlow', 'Break': 'ControlFlow',
                   'Ready': 'Poll', 'Pending': 'Poll', 'V4': 'SocketAddr', 'V6': 'SocketAddr'}

BINOPS = ('Add', 'Sub', 'Mul', 'Div', 'Rem', 'BitAnd', 'BitOr', 'BitXor', 'Shl', 'Shr', 'Lt', 'Le', 'Gt', 'Ge', 'Eq', 'Ne',
          'AddWithOverflow', 'SubWithOverflow', 'MulWithOverflow', 'AddUnchecked', 'SubUnchecked', 'MulUnchecked', 'ShlUnchecked',
          'ShrUnchecked', 'Offset', 'Cmp')
_binop_rx = re.compile(r'^(%s)\((.*)\)$' % '|'.join(BINOPS))
_skip_stmt = ('StorageLive', 'StorageDead', 'nop', 'FakeRead', 'PlaceMention', 'Retag', 'AscribeUserType', 'Coverage',
              'ConstEvalCounter', 'BackwardIncompatibleDropHint', 'Deinit')

PANIC_FNS = ('core::panicking::panic', 'std::rt::begin_panic', 'core::panicking::panic_fmt', 'std::rt::panic_fmt',
             'core::panicking::panic_display', 'core::panicking::panic_explicit', 'core::panicking::unreachable_display',
             'core::option::unwrap_failed', 'core::option::expect_failed', 'core::result::unwrap_failed',
             'core::panicking::panic_bounds_check', 'core::panicking::assert_failed', 'core::panicking::panic_nounwind',
             'core::slice::index::slice_end_index_len_fail', 'core::slice::index::slice_index_order_fail',
             'core::slice::index::slice_start_index_len_fail', 'core::str::slice_error_fail', 'core::panicking::panic_const',
             'core::cell::panic_already_borrowed', 'std::process::abort', 'core::intrinsics::abort')


def _last_balanced_open(s):
    """index of the '(' matching the final ')' of s"""
    d = 0
    k = len(s) - 1
    while k >= 0:
        c = s[k]
        if c == ')':
            d += 1
        elif c == '(':
            d -= 1
            if d == 0:
                return k
        k -= 1
    return -1


def parse_stmt(s):
    if s.startswith(_skip_stmt):
        return ('nop',)
    if s == 'return;':
        return ('return',)
    if s == 'unreachable;':
        return ('unreachable',)
    if s == 'resume;' or s.startswith('resume') or s.startswith('terminate'):
        return ('end',)
    m = re.match(r'^goto -> (bb\d+);$', s)
    if m:
        return ('goto', m.group(1))
    m = re.match(r'^drop\(.*\) -> \[return: (bb\d+).*\];$', s)
    if m:
        return ('goto', m.group(1))
    m = re.match(r'^(?:falseEdge|falseUnwind) -> \[real: (bb\d+).*\];$', s)
    if m:
        return ('goto', m.group(1))
    m = re.match(r'^switchInt\((.*)\) -> \[(.*)\];$', s)
    if m:
        arms = []
        for arm in m.group(2).split(', '):
            k, tgt = arm.rsplit(': ', 1)
            arms.append((None if k == 'otherwise' else int(k), tgt))
        return ('switch', m.group(1), tuple(arms))
    if s.startswith('assert('):
        m = re.match(r'^assert\((!?)(.*?), "(.*?)"(.*)\) -> \[success: (bb\d+).*\];$', s)
        if m:
            return ('assert', bool(m.group(1)), m.group(2), m.group(3), m.group(5))
    m = re.match(r'^(.*?) = (.*\)) -> \[return: (bb\d+).*\];$', s)
    if m is None:
        m2 = re.match(r'^(.*?) = (.*\)) -> unwind.*;$', s)
        if m2:
            rhs = m2.group(2)
            k = _last_balanced_open(rhs)
            return ('call', m2.group(1), rhs[:k], rhs[k + 1:-1], None)
    if m:
        rhs = m.group(2)
        k = _last_balanced_open(rhs)
        func = rhs[:k]
        if not _binop_rx.match(rhs) and func not in ('discriminant', 'Not', 'Neg', 'PtrMetadata', 'Len', 'CopyForDeref'):
            return ('call', m.group(1), func, rhs[k + 1:-1], m.group(3))
    m = re.match(r'^discriminant\((.*)\) = (\d+);$', s)
    if m:
        return ('setdisc', m.group(1), int(m.group(2)))
    m = re.match(r'^assume\((.*)\);$', s)
    if m:
        return ('assume', m.group(1))
    m = re.match(r'^copy_nonoverlapping\(dst = (.*), src = (.*), count = (.*)\);$', s)
    if m:
        return ('copy_nonoverlapping', m.group(1), m.group(2), m.group(3))
    m = re.match(r'^(.*?) = (.*);$', s)
    if m:
        return ('assign', m.group(1), m.group(2))
    raise Inconclusive('stmt ' + s)


@functools.lru_cache(maxsize=None)
def parse_place_raw(s):
    """returns (local, proj tuple); index projections carry the *unprefixed* local name"""
    s = s.strip()
    m = re.match(r'^(.*)\[(_\d+)\]$', s)
    if m and balanced(m.group(1)):
        b, p = parse_place_raw(m.group(1))
        return b, p + (('index', m.group(2)),)
    m = re.match(r'^(.*)\[(-?\d+) of (\d+)\]$', s)
    if m and balanced(m.group(1)):
        b, p = parse_place_raw(m.group(1))
        k = int(m.group(2))
        return b, p + (('cindex', abs(k), k < 0 or m.group(2).startswith('-')),)
    m = re.match(r'^(.*)\[(\d+):(-?\d*)\]$', s)
    if m and balanced(m.group(1)):
        b, p = parse_place_raw(m.group(1))
        return b, p + (('subslice', int(m.group(2)), m.group(3)),)
    if s.startswith('(') and s.endswith(')') and balanced(s[1:-1]):
        inner = s[1:-1]
        if inner.startswith('*'):
            b, p = parse_place_raw(inner[1:])
            return b, p + (('deref',),)
        depth = 0
        pos = None
        aspos = None
        for idx, ch in enumerate(inner):
            if ch in '([{<':
                depth += 1
            elif ch in ')]}':
                depth -= 1
            elif ch == '>' and inner[idx - 1] != '-':
                depth -= 1
            elif depth == 0:
                if ch == '.':
                    mm = re.match(r'^\.(\d+): ', inner[idx:])
                    if mm:
                        pos = (idx, int(mm.group(1)))
                elif ch == ' ' and inner.startswith(' as ', idx):
                    aspos = idx
        if pos:
            b, p = parse_place_raw(inner[:pos[0]])
            return b, p + (('field', pos[1]),)
        if aspos is not None:
            b, p = parse_place_raw(inner[:aspos])
            var = inner[aspos + 4:].strip()
            return b, p + (('downcast', var),)
    if re.match(r'^_\d+$', s):
        return s, ()
    raise Inconclusive('place ' + s)


class Stats:
    def __init__(self):
        self.obligations = 0
        self.discharged = 0
        self.trivial = 0
        self.queries = 0
        self.solver_s = 0.0
        self.paths = 0
        self.unwound = 0
        self.branches = 0


class Violation:
    def __init__(self, kind, msg, site, model, fnname):
        self.kind, self.msg, self.site, self.model, self.fnname = kind, msg, site, model, fnname

    def key(self):
        return '%s|%s' % (self.site, self.kind)

    def __repr__(self):
        return 'Violation(%s %s @%s %s)' % (self.kind, self.msg, self.site, self.model)


class Exec:
    def __init__(self, prog, unroll=8, timeout_ms=60000):
        self.prog = prog
        self.unroll = unroll
        self.unroll_for = {}        # fn-name suffix -> bound
        self.const_generics = {}    # 'N' -> int
        self.const_cache = {}
        self.overrides = []         # (regex, handler) consulted before the builtin models
        self.solver = z3.Solver()
        self.solver.set('timeout', timeout_ms)
        self.stats = Stats()
        self.violations = []
        self.inputs = {}            # name -> value, concretised in counterexamples
        self.assume_oblig = True
        self.no_inline = set()      # repo fn names (suffix) that must not be inlined (use a model)
        self.max_paths = 20000
        self.trace = False
        self.encoded_fns = set()
        self.opaque_calls = {}
        self.release_mode = False   # True: overflow asserts are not obligations (wrapping semantics)
        self.violation_filter = None
        from . import models
        self.models = models.REGISTRY
        self.max_depth = 24
        self.clock = {}
        self.cut_loops = []         # (fn-name suffix, bb): loop heads closed by induction
        self.summarize = True
        self._no_summary = set()
        self._summ_depth = 0
        self.retry_timeout_ms = 300000

    # ------------------------------------------------------------------ solver
    def check(self, conds):
        t0 = time.time()
        self.solver.push()
        for c in conds:
            self.solver.add(c)
        r = self.solver.check()
        self.stats.queries += 1
        model = None
        if r == z3.sat:
            model = self.solver.model()
        reason = self.solver.reason_unknown() if r == z3.unknown else ''
        self.solver.pop()
        if r == z3.unknown:
            # second attempt: fresh, non-incremental solver (bit-blasting tactic where applicable), longer cap
            for mk in (lambda: z3.Tactic('qfaufbv').solver(), lambda: z3.Solver()):
                try:
                    s2 = mk()
                    s2.set('timeout', self.retry_timeout_ms)
                    s2.add(*conds)
                    r = s2.check()
                    self.stats.queries += 1
                    if r == z3.sat:
                        model = s2.model()
                    if r != z3.unknown:
                        break
                    reason = s2.reason_unknown()
                except z3.Z3Exception as e:
                    reason = str(e)
        self.stats.solver_s += time.time() - t0
        if r == z3.unknown:
            raise Inconclusive('solver returned unknown: ' + reason)
        return r == z3.sat, model

    def feasible(self, p, cond):
        c = z3.simplify(cond)
        if z3.is_false(c):
            return False
        if z3.is_true(c):
            return True
        ok, _ = self.check(p.pcs + [c])
        return ok

    def concretize(self, model, p=None):
        out = {}
        st = p.st if p is not None else None
        for name, v in self.inputs.items():
            try:
                out[name] = self.concrete_value(model, v, st)
            except Exception as e:  # pragma: no cover
                out[name] = 'unprintable: %s' % e
        if p is not None:
            for logname in ('opens', 'aead_vec', 'xof', 'ecb'):
                if logname not in p.ghost:
                    continue
                opens = []
                for ent in p.ghost[logname]:
                    if ent[0] == 'fail':
                        opens.append(None)
                    else:
                        n = model.eval(ent[2], model_completion=True).as_long()
                        opens.append([model.eval(z3.Select(ent[1], bv64(i)), model_completion=True).as_long() for i in range(min(n, 4096))])
                out['#' + logname] = opens
            if 'ideal_ops' in p.ghost:
                # ideal-AEAD run: outcome and plaintext of every open, in call order (script for the native replay)
                opens = []
                for op in p.ghost['ideal_ops']:
                    if op[0] == 'open':
                        a, o, l = op[1].pt
                        n = model.eval(l, model_completion=True).as_long()
                        off = model.eval(o, model_completion=True).as_long()
                        opens.append([model.eval(z3.Select(a, bv64(off + i)), model_completion=True).as_long() for i in range(min(n, 70000))])
                    elif op[0] == 'open-fail':
                        opens.append(None)
                out['#opens'] = opens
            for k, v in p.ghost.items():
                if k.startswith('in:'):
                    try:
                        out[k[3:]] = self.concrete_value(model, v, st)
                    except Exception as e:  # pragma: no cover
                        out[k[3:]] = 'unprintable: %s' % e
            for k, term in getattr(self, 'clock', {}).items():
                out['#clock_' + k] = model.eval(term, model_completion=True).as_long()
        return out

    def small_model(self, conds, model):
        """prefer a counterexample with short buffers (easier to read and to replay)"""
        lens = [v.len for v in self.inputs.values() if isinstance(v, Buf) and not z3.is_bv_value(v.len)]
        if not lens:
            return model
        for bound in (64, 1024):
            ok, m2 = self.check(list(conds) + [z3.ULE(l, bv64(bound)) for l in lens])
            if ok:
                return m2
        return model

    def concrete_value(self, model, v, st=None, cap=4096):
        if isinstance(v, tuple):
            r = model.eval(v[0], model_completion=True)
            if z3.is_bool(r):
                return bool(z3.is_true(r))
            return r.as_long()
        if isinstance(v, Buf):
            n = model.eval(v.len, model_completion=True).as_long()
            off = model.eval(v.off, model_completion=True).as_long()
            m = min(n, cap)
            bs = [model.eval(z3.Select(v.arr, bv64(off + i)), model_completion=True).as_long() for i in range(m)]
            return {'len': n, 'bytes': bs}
        if isinstance(v, Arr):
            n = v.n if isinstance(v.n, int) else model.eval(v.n, model_completion=True).as_long()
            return [model.eval(z3.Select(v.arr, bv64(i)), model_completion=True).as_long() for i in range(min(n, cap))]
        if isinstance(v, Agg):
            return [self.concrete_value(model, f, st) for f in v.fields]
        if isinstance(v, Enum):
            d = model.eval(v.disc, model_completion=True).as_long()
            return {'disc': d, 'payloads': {k: [self.concrete_value(model, f, st) for f in fs] for k, fs in v.payloads.items()}}
        if isinstance(v, List):
            return [self.concrete_value(model, f, st) for f in v.items]
        if z3.is_expr(v):
            r = model.eval(v, model_completion=True)
            if z3.is_bool(r):
                return bool(z3.is_true(r))
            return r.as_long()
        return repr(v)

    def oblig(self, p, cond, kind, msg, site):
        """discharge `cond` under the current path condition; record a violation with a model if it can fail"""
        self.stats.obligations += 1
        c = z3.simplify(cond)
        if z3.is_true(c):
            self.stats.discharged += 1
            self.stats.trivial += 1
            return True
        sat, model = self.check(p.pcs + [z3.Not(c)])
        if not sat:
            self.stats.discharged += 1
        else:
            model = self.small_model(p.pcs + [z3.Not(c)], model)
            v = Violation(kind, msg, site, self.concretize(model, p), site.split('@')[0])
            if self.violation_filter is None or self.violation_filter(v, p):
                self.violations.append(v)
        p.pcs.append(c)
        if sat:
            # does the path survive the assumption at all?
            if z3.is_false(c):
                return False
            ok, _ = self.check(p.pcs)
            return ok
        return True

    # ------------------------------------------------------------------ constants
    def const_value(self, path, fn):
        path = path.strip()
        if path in self.const_generics:
            return (bv64(self.const_generics[path]), 'usize')
        key = (path, fn.crate)
        if key in self.const_cache:
            return self.const_cache[key]
        if 'UTerm' in path:
            v = self.std_const(path)
            self.const_cache[key] = v
            return v
        name = strip_generics(path)
        cands = self.prog.consts_by_name.get(name)
        if not cands:
            last = name.split('::')[-1]
            if '{constant#' in last:
                last = '::'.join(name.split('::')[-3:])
            cands = self.prog.consts_by_name.get(last)
        if not cands and '::' in name:
            cands = [c for c in self.prog.consts if c[0].endswith('::' + name) or name.endswith('::' + c[0])]
        if not cands:
            v = self.std_const(name)
            self.const_cache[key] = v
            return v
        same = [c for c in cands if c[4] == fn.crate]
        if name.startswith('octo_squirrel::'):
            same = [c for c in cands if c[4] == 'octo-squirrel'] or same
        cands = same or cands
        c = min(cands, key=lambda c: abs(c[3] - fn.line))
        if isinstance(c[2], str):
            v = self.literal(c[2], fn, c[1])
            if v is None:
                v = Opaque('const ' + c[2])
        else:
            v = self.eval_const_fn(c[2])
        self.const_cache[key] = v
        return v

    def std_const(self, name):
        m = re.match(r'^(?:core::num::<impl )?(u8|u16|u32|u64|u128|usize|i8|i16|i32|i64|i128|isize)>?::(MAX|MIN|BITS)$', name)
        if m:
            ty, what = m.group(1), m.group(2)
            w = INT_BITS[ty]
            if what == 'BITS':
                return (bvv(w, 32), 'u32')
            if ty in SIGNED:
                val = (1 << (w - 1)) - 1 if what == 'MAX' else -(1 << (w - 1))
            else:
                val = (1 << w) - 1 if what == 'MAX' else 0
            return (bvv(val, w), ty)
        if name.endswith('UNIX_EPOCH'):
            return Agg('struct', ((bv64(0), 'i64'), (bvv(0, 32), 'u32')), 'SystemTime')
        if name.endswith('::USIZE') or name.endswith('::U64') or name.endswith('::U32') or name.endswith('::U8'):
            from .crypto import typenum
            v = typenum(name)
            if v is not None and 'UTerm' in name:
                return (bv64(v), 'usize')
        return Opaque('unknown const ' + name)

    def eval_const_fn(self, cfn):
        sub = Exec(self.prog, unroll=64)
        sub.const_generics = self.const_generics
        sub.const_cache = self.const_cache
        res = sub.run(cfn, [], [])
        done = [r for r in res if r.status == 'return']
        if len(done) != 1:
            return Opaque('const body with %d paths' % len(done))
        ret = done[0].ret
        if isinstance(ret, Ref):
            # reference to the body's own local: park the value in a global cell
            val = sub.deref_all(done[0].st, ret)
            key = '#const%d' % (len(GLOBALS) + 1)
            GLOBALS[key] = val
            return Ref(key, ())
        return ret

    def literal(self, s, fn=None, ty=None):
        s = s.strip()
        m = re.match(r'^(-?\d+)_(\w+)$', s)
        if m and m.group(2) in INT_BITS:
            return (bvv(int(m.group(1)), INT_BITS[m.group(2)]), m.group(2))
        if s == '()':
            return unit()
        if s == 'true':
            return (T, 'bool')
        if s == 'false':
            return (F, 'bool')
        m = re.match(r"^'(.)'$", s)
        if m:
            return (bvv(ord(m.group(1)), 32), 'char')
        m = re.match(r'^"((?:[^"\\]|\\.)*)"$', s)
        if m:
            bs = _unescape(m.group(1))
            return self.const_bytes(bs, 'str')
        m = re.match(r'^b"((?:[^"\\]|\\.)*)"$', s)
        if m:
            bs = _unescape(m.group(1))
            return self.const_bytes(bs, 'slice')
        m = re.match(r"^b'(.)'$", s)
        if m:
            return (bvv(ord(m.group(1)), 8), 'u8')
        if s.startswith('ZeroSized: {closure@'):
            return Agg('closure', (), s[len('ZeroSized: '):])
        if s.startswith('ZeroSized') or s.startswith('std::marker::PhantomData') or s.startswith('PhantomData'):
            return Agg('zst', (), s)
        return None

    def const_bytes(self, bs, kind):
        key = ('bytes', bytes(bs), kind)
        if key not in self.const_cache:
            arr = z3.K(BV64, bvv(0, 8))
            for i, b in enumerate(bs):
                arr = z3.Store(arr, bv64(i), bvv(b, 8))
            self.const_cache[key] = Buf(kind, arr, bv64(0), bv64(len(bs)))
        return self.const_cache[key]

    def promoted(self, fn, s):
        """`const path::promoted[k]`: evaluate the promoted body that follows the referencing function in the same dump"""
        key = ('promoted', s, fn.crate, fn.name)
        if key in self.const_cache:
            return self.const_cache[key]
        k = re.search(r'promoted\[(\d+)\]$', s).group(0)
        fn_last = fn.name.split('::')[-1]
        cands = [c for c in self.prog.consts_by_name.get(k, []) if c[4] == fn.crate and (c[0].endswith('::' + fn_last + '::' + k) or c[0] == fn_last + '::' + k)]
        if not cands:
            meth = strip_generics(s).split('::')[-2]
            cands = [c for c in self.prog.consts_by_name.get(k, []) if c[4] == fn.crate and (c[0].endswith('::' + meth + '::' + k) or c[0] == meth + '::' + k)]
        v = Opaque('promoted ' + s)
        if cands:
            c = min(cands, key=lambda c: abs(c[3] - fn.line))
            if isinstance(c[2], str):
                v = self.literal(c[2], fn, c[1]) or v
            else:
                v = self.eval_const_fn(c[2])
        self.const_cache[key] = v
        return v

    def disc_of(self, enum_path, variant):
        if variant in WELL_KNOWN_DISC and (WELL_KNOWN_ENUM.get(variant, '') in enum_path or 'Ordering' in enum_path or 'Cow' in enum_path):
            return bvv(WELL_KNOWN_DISC[variant], 64)
        ename = strip_generics(enum_path).split('::')[-1]
        infos = self.prog.enum_info(ename)
        if infos and len(infos) > 1:
            # same enum name in several modules: pick by module path
            mod = '/'.join(re.sub(r'^(octo_squirrel|crate)::', '', strip_generics(enum_path)).split('::')[:-1])
            pick = [i for i in infos if mod and (mod + '.rs' in i[0] or mod + '/' in i[0])]
            if len(pick) == 1:
                infos = pick
            else:
                infos = [i for i in infos if any(n == variant for n, _d in i[1])]
                if len(infos) != 1:
                    raise Inconclusive('ambiguous enum %s::%s' % (enum_path, variant))
        if infos:
            for _f, names in infos:
                for n, d in names:
                    if n == variant:
                        return bvv(d, 64)
        if variant in WELL_KNOWN_DISC:
            return bvv(WELL_KNOWN_DISC[variant], 64)
        raise Inconclusive('unknown discriminant %s::%s' % (enum_path, variant))

    # ------------------------------------------------------------------ places
    def place(self, fr, s):
        b, proj = parse_place_raw(s)
        pfx = '%d:' % fr.id
        if any(p[0] == 'index' for p in proj):
            proj = tuple(('index', pfx + p[1]) if p[0] == 'index' else p for p in proj)
        return pfx + b, proj

    def load(self, st, base, proj=()):
        if base not in st:
            if base in GLOBALS:
                return self.project(st, GLOBALS[base], proj)
            raise Inconclusive('read of uninitialised ' + base)
        return self.project(st, st[base], proj)

    def deref_all(self, st, v):
        while isinstance(v, Ref):
            v = self.load(st, v.base, v.proj)
        return v

    def final_ref(self, st, r):
        """follow a chain of references to the Ref whose target is not itself a Ref"""
        n = 0
        while True:
            v = self.load(st, r.base, r.proj)
            if isinstance(v, Ref):
                r = v
                n += 1
                if n > 50:
                    raise Inconclusive('reference cycle')
            else:
                return r

    def project(self, st, v, proj):
        i = 0
        n = len(proj)
        while i < n:
            p = proj[i]
            k = p[0]
            if isinstance(v, Opaque):
                return Opaque('proj of ' + v.why)
            if k == 'deref':
                if isinstance(v, Ref):
                    v = self.load(st, v.base, v.proj)
                elif isinstance(v, Agg) and v.kind == 'box':
                    v = self.load(st, v.fields[0].base, v.fields[0].proj)
                # otherwise: by-value slice-like / transparent smart pointer
            elif k == 'field':
                if isinstance(v, Agg):
                    if p[1] >= len(v.fields):
                        if v.kind in ('zst',):
                            v = Agg('zst', ())
                        else:
                            raise Inconclusive('field %d of %r' % (p[1], v))
                    else:
                        v = v.fields[p[1]]
                    if v is None:
                        raise Inconclusive('read of uninitialised field')
                elif isinstance(v, Enum):
                    # coroutine state: captured variables are fields of the state object itself
                    up = v.payloads.get('#upvars')
                    if up is None or p[1] >= len(up):
                        raise Inconclusive('field of enum without downcast')
                    v = up[p[1]]
                elif isinstance(v, Buf) and v.kind == 'string' and p[1] == 0:
                    v = Buf('vec', v.arr, v.off, v.len)
                elif isinstance(v, (Ref, SRef)) and p[1] == 0:
                    pass    # pointer wrappers (Unique<T>.0: NonNull<T>, NonNull<T>.0: *const T) round the pointer itself
                else:
                    raise Inconclusive('field %d of %r' % (p[1], v))
            elif k == 'downcast':
                var = p[1]
                if i + 1 < n and proj[i + 1][0] == 'field':
                    if not isinstance(v, Enum):
                        raise Inconclusive('downcast of non-enum %r' % (v,))
                    fs = v.payloads.get(var)
                    if fs is None or proj[i + 1][1] >= len(fs):
                        raise Inconclusive('payload of variant %s not modelled in %r' % (var, v))
                    v = fs[proj[i + 1][1]]
                    i += 1
            elif k == 'index':
                idx = st[p[1]][0]
                v = self.index_value(st, v, idx)
            elif k == 'cindex':
                v = self.index_value(st, v, None, p[1], p[2])
            else:
                raise Inconclusive('projection ' + k)
            i += 1
        return v

    def index_value(self, st, v, idx, cidx=None, from_end=False):
        if isinstance(v, Arr):
            if idx is None:
                idx = (v.nterm() - bv64(cidx)) if from_end else bv64(cidx)
            return (z3.Select(v.arr, idx), v.elemty)
        if isinstance(v, Buf):
            if idx is None:
                idx = (v.len - bv64(cidx)) if from_end else bv64(cidx)
            return (z3.Select(v.arr, v.off + idx), 'u8')
        if isinstance(v, SRef):
            if idx is None:
                idx = (v.len - bv64(cidx)) if from_end else bv64(cidx)
            o = self.deref_all(st, v.owner)
            return (z3.Select(o.arr, v.off + idx), 'u8')
        if isinstance(v, List):
            if idx is None:
                k = (len(v.items) - cidx) if from_end else cidx
            else:
                s = z3.simplify(idx)
                if not z3.is_bv_value(s):
                    # symbolic index over a short list of scalars/aggregates: not supported
                    raise Inconclusive('symbolic index into List')
                k = s.as_long()
            if k >= len(v.items):
                raise Inconclusive('List index out of modelled range')
            return v.items[k]
        raise Inconclusive('index into %r' % (v,))

    def store(self, st, base, proj, val):
        st[base] = self.updated(st, st.get(base), proj, val)

    def updated(self, st, cur, proj, val):
        if not proj:
            return val
        p = proj[0]
        k = p[0]
        rest = proj[1:]
        if k == 'deref':
            if isinstance(cur, Ref):
                self.store(st, cur.base, cur.proj + rest, val)
                return cur
            if isinstance(cur, Agg) and cur.kind == 'box':
                r = cur.fields[0]
                self.store(st, r.base, r.proj + rest, val)
                return cur
            if isinstance(cur, SRef):
                if len(rest) == 1 and rest[0][0] in ('index', 'cindex'):
                    idx = st[rest[0][1]][0] if rest[0][0] == 'index' else bv64(rest[0][1])
                    self.bytes_store(st, cur, idx, val[0])
                    return cur
                raise Inconclusive('write through slice ref with proj %r' % (rest,))
            return self.updated(st, cur, rest, val)
        if k == 'field':
            if cur is None:
                items = []
                kind, name = 'struct', None
            elif isinstance(cur, Agg):
                items = list(cur.fields)
                kind, name = cur.kind, cur.name
            else:
                raise Inconclusive('field write into %r' % (cur,))
            while len(items) <= p[1]:
                items.append(None)
            items[p[1]] = self.updated(st, items[p[1]], rest, val)
            return Agg(kind, items, name)
        if k == 'downcast':
            var = p[1]
            if rest and rest[0][0] == 'field':
                fi = rest[0][1]
                if cur is None:
                    cur = Enum(None, {}, '?')
                if not isinstance(cur, Enum):
                    raise Inconclusive('downcast write into %r' % (cur,))
                fs = list(cur.payloads.get(var, ()))
                while len(fs) <= fi:
                    fs.append(None)
                fs[fi] = self.updated(st, fs[fi], rest[1:], val)
                pl = dict(cur.payloads)
                pl[var] = tuple(fs)
                return Enum(cur.disc, pl, cur.ename)
            return self.updated(st, cur, rest, val)
        if k in ('index', 'cindex'):
            idx = st[p[1]][0] if k == 'index' else bv64(p[1])
            if isinstance(cur, Arr):
                if rest:
                    raise Inconclusive('nested write into array element')
                return Arr(z3.Store(cur.arr, idx, val[0]), cur.elemty, cur.n)
            if isinstance(cur, Buf):
                return cur.with_(arr=z3.Store(cur.arr, cur.off + idx, val[0]))
            if isinstance(cur, SRef):
                self.bytes_store(st, cur, idx, val[0])
                return cur
            if isinstance(cur, List):
                s = z3.simplify(idx)
                if z3.is_bv_value(s) and s.as_long() < len(cur.items):
                    items = list(cur.items)
                    items[s.as_long()] = self.updated(st, items[s.as_long()], rest, val)
                    return List(items)
            raise Inconclusive('index write into %r' % (cur,))
        raise Inconclusive('write projection ' + k)

    # ---- byte views -------------------------------------------------------------
    def bytes_view(self, st, v):
        """(arr, off, len) of any byte-sequence-like value (following references)"""
        v = self.deref_all(st, v)
        if isinstance(v, Buf):
            return v.arr, v.off, v.len
        if isinstance(v, SRef):
            o = self.deref_all(st, v.owner)
            return o.arr, v.off, v.len
        if isinstance(v, Arr) and v.elemty == 'u8':
            return v.arr, bv64(0), v.nterm()
        if isinstance(v, Agg) and v.kind == 'box':
            return self.bytes_view(st, v.fields[0])
        raise Inconclusive('not a byte view: %r' % (v,))

    def bytes_target(self, st, v):
        """for a mutable byte view given as Ref / SRef: returns (owner Ref, owner value, abs off, len)"""
        if isinstance(v, Ref):
            r = self.final_ref(st, v)
            t = self.load(st, r.base, r.proj)
            if isinstance(t, SRef):
                return self.bytes_target(st, t)
            if isinstance(t, Buf):
                return r, t, t.off, t.len
            if isinstance(t, Arr) and t.elemty == 'u8':
                return r, t, bv64(0), t.nterm()
            raise Inconclusive('mutable byte view of %r' % (t,))
        if isinstance(v, SRef):
            r = self.final_ref(st, v.owner)
            t = self.load(st, r.base, r.proj)
            return r, t, v.off, v.len
        raise Inconclusive('mutable byte view of %r' % (v,))

    def set_owner_arr(self, st, r, t, arr):
        if isinstance(t, Buf):
            self.store(st, r.base, r.proj, t.with_(arr=arr))
        else:
            self.store(st, r.base, r.proj, Arr(arr, t.elemty, t.n))

    def bytes_store(self, st, sref, idx, byte):
        r, t, off, _ln = self.bytes_target(st, sref)
        self.set_owner_arr(st, r, t, z3.Store(t.arr, off + idx, byte))

    def bytes_fill(self, st, target, src_arr, src_off, n, dst_rel=None):
        """target[dst_rel .. dst_rel+n) := src[src_off .. src_off+n)   (n symbolic)"""
        r, t, off, _ln = self.bytes_target(st, target)
        pos = off if dst_rel is None else off + dst_rel
        self.set_owner_arr(st, r, t, copy_into(t.arr, pos, src_arr, src_off, n))

    def as_sref(self, st, v):
        """make a write-through slice reference out of a Ref to a Buf/Arr, or pass an SRef through"""
        if isinstance(v, SRef):
            return v
        if isinstance(v, Ref):
            r = self.final_ref(st, v)
            t = self.load(st, r.base, r.proj)
            if isinstance(t, SRef):
                return t
            if isinstance(t, Buf):
                return SRef(r, t.off, t.len)
            if isinstance(t, Arr) and t.elemty == 'u8':
                return SRef(r, bv64(0), t.nterm())
        raise Inconclusive('cannot view %r as byte slice ref' % (v,))

    # ------------------------------------------------------------------ operands / rvalues
    def operand(self, p, fr, s):
        s = s.strip()
        if s.startswith('no_retag '):
            s = s[9:]
        if s.startswith('copy ') or s.startswith('move '):
            b, proj = self.place(fr, s[5:])
            return self.load(p.st, b, proj)
        if s.startswith('const '):
            c = s[6:].strip()
            v = self.literal(c, fr.fn)
            if v is not None:
                return v
            if re.search(r'::promoted\[\d+\]$', c):
                return self.promoted(fr.fn, c)
            if c.startswith('{alloc') or c.startswith('&'):
                return Opaque('alloc const')
            mce = re.match(r'^.*(?:Option|Result)::<.*>::(Ok|Err|Some|None)(\(.*\))?$', c)
            if mce:
                var = mce.group(1)
                pl = {} if var == 'None' else {var: (Opaque('const payload') if mce.group(2) not in ('(const ())', '(())') else unit(),)}
                return Enum(bvv(WELL_KNOWN_DISC[var], 64), pl, WELL_KNOWN_ENUM[var])
            if re.match(r'^[\w:<>, ]*::\{closure#\d+\}$', c) or c.startswith('{closure@'):
                return Agg('closure', (), c)
            m = re.match(r'^(.*)::([A-Z]\w*)$', c)
            if m and self.prog.enum_info(strip_generics(m.group(1)).split('::')[-1]):
                ename = strip_generics(m.group(1)).split('::')[-1]
                try:
                    return Enum(self.disc_of(m.group(1), m.group(2)), {}, ename)
                except Inconclusive:
                    pass
            v = self.const_value(c, fr.fn)
            if isinstance(v, Opaque):
                if re.match(r'^[a-zA-Z_<].*', c) and ('::' in c or c[0] == '<') and not c.split('::')[-1].isupper():
                    # function item / zero-sized constant
                    return Agg('fnitem', (), c)
            return v
        if re.match(r'^[A-Za-z_<]', s) and '::' in s:
            return Agg('fnitem', (), s)
        raise Inconclusive('operand ' + s)

    def binop(self, op, a, b):
        if isinstance(a, Opaque) or isinstance(b, Opaque):
            return Opaque('binop on opaque')
        if op == 'Offset':
            return self.ptr_offset(a, b)
        if not (isinstance(a, tuple) and isinstance(b, tuple)):
            if op in ('Eq', 'Ne') and isinstance(a, Ref) and isinstance(b, Ref):
                same = a.base == b.base and a.proj == b.proj
                return ((T if same else F) if op == 'Eq' else (F if same else T), 'bool')
            raise Inconclusive('binop %s on %r, %r' % (op, a, b))
        (x, tx), (y, ty) = a, b
        sg = tx in SIGNED
        if op in ('Add', 'Sub', 'Mul', 'BitAnd', 'BitOr', 'BitXor', 'AddUnchecked', 'SubUnchecked', 'MulUnchecked'):
            if tx == 'bool':
                return ({'BitAnd': z3.And(x, y), 'BitOr': z3.Or(x, y), 'BitXor': z3.Xor(x, y)}[op], 'bool')
            o = op.replace('Unchecked', '')
            r = {'Add': lambda: x + y, 'Sub': lambda: x - y, 'Mul': lambda: x * y, 'BitAnd': lambda: x & y, 'BitOr': lambda: x | y,
                 'BitXor': lambda: x ^ y}[o]()
            return (r, tx)
        if op in ('Div', 'Rem'):
            if op == 'Div':
                return ((x / y) if sg else z3.UDiv(x, y), tx)
            return (z3.SRem(x, y) if sg else z3.URem(x, y), tx)
        if op in ('Shl', 'Shr', 'ShlUnchecked', 'ShrUnchecked'):
            w = x.size()
            yy = y
            if y.size() < w:
                yy = z3.ZeroExt(w - y.size(), y)
            elif y.size() > w:
                yy = z3.Extract(w - 1, 0, y)
            # rustc masks the shift amount in the non-asserting form
            yy = yy & bvv(w - 1, w)
            if op.startswith('Shl'):
                return (x << yy, tx)
            return ((x >> yy) if sg else z3.LShR(x, yy), tx)
        if op in ('Lt', 'Le', 'Gt', 'Ge', 'Eq', 'Ne'):
            if tx == 'bool':
                return ({'Eq': x == y, 'Ne': x != y, 'Lt': z3.And(z3.Not(x), y), 'Le': z3.Implies(x, y), 'Gt': z3.And(x, z3.Not(y)),
                         'Ge': z3.Implies(y, x)}[op], 'bool')
            f = {'Lt': (lambda: x < y) if sg else (lambda: z3.ULT(x, y)), 'Le': (lambda: x <= y) if sg else (lambda: z3.ULE(x, y)),
                 'Gt': (lambda: x > y) if sg else (lambda: z3.UGT(x, y)), 'Ge': (lambda: x >= y) if sg else (lambda: z3.UGE(x, y)),
                 'Eq': lambda: x == y, 'Ne': lambda: x != y}[op]
            return (f(), 'bool')
        if op == 'Cmp':
            lt = (x < y) if sg else z3.ULT(x, y)
            d = z3.If(lt, bvv(-1, 64), z3.If(x == y, bvv(0, 64), bvv(1, 64)))
            return Enum(d, {}, 'Ordering')
        if op in ('AddWithOverflow', 'SubWithOverflow', 'MulWithOverflow'):
            if op == 'AddWithOverflow':
                r = x + y
                ov = z3.Not(z3.BVAddNoOverflow(x, y, False)) if not sg else z3.Or(z3.Not(z3.BVAddNoOverflow(x, y, True)), z3.Not(z3.BVAddNoUnderflow(x, y)))
            elif op == 'SubWithOverflow':
                r = x - y
                ov = z3.Not(z3.BVSubNoUnderflow(x, y, False)) if not sg else z3.Or(z3.Not(z3.BVSubNoOverflow(x, y)), z3.Not(z3.BVSubNoUnderflow(x, y, True)))
            else:
                r = x * y
                ov = z3.Not(z3.BVMulNoOverflow(x, y, False)) if not sg else z3.Or(z3.Not(z3.BVMulNoOverflow(x, y, True)), z3.Not(z3.BVMulNoUnderflow(x, y)))
            return Agg('tuple', ((r, tx), (ov, 'bool')))
        raise Inconclusive('binop ' + op)

    def ptr_offset(self, a, b):
        if isinstance(a, SRef) and isinstance(b, tuple):
            return SRef(a.owner, a.off + b[0], a.len - b[0])
        raise Inconclusive('pointer offset on %r' % (a,))

    def cast_int(self, v, nt):
        if isinstance(v, Opaque):
            return v
        if isinstance(v, Enum):
            # fieldless enum as integer
            t = v.disc
            nw = INT_BITS[nt]
            return (z3.Extract(nw - 1, 0, t) if nw < 64 else (z3.SignExt(nw - 64, t) if nw > 64 else t), nt)
        x, t = v
        if t == 'bool':
            return (z3.If(x, bvv(1, INT_BITS[nt]), bvv(0, INT_BITS[nt])), nt)
        w, nw = x.size(), INT_BITS[nt]
        if nw == w:
            return (x, nt)
        if nw < w:
            return (z3.Extract(nw - 1, 0, x), nt)
        return ((z3.SignExt if t in SIGNED else z3.ZeroExt)(nw - w, x), nt)

    def rvalue(self, p, fr, s):
        s = s.strip()
        st = p.st
        m = _binop_rx.match(s)
        if m:
            a, b = split_top(m.group(2))
            return self.binop(m.group(1), self.operand(p, fr, a), self.operand(p, fr, b))
        if s.startswith('Not('):
            v = self.operand(p, fr, s[4:-1])
            if isinstance(v, Opaque):
                return v
            return (z3.Not(v[0]), 'bool') if v[1] == 'bool' else (~v[0], v[1])
        if s.startswith('Neg('):
            v = self.operand(p, fr, s[4:-1])
            return (-v[0], v[1])
        if s.startswith('PtrMetadata(') or s.startswith('Len('):
            inner = s[s.index('(') + 1:-1]
            if s.startswith('Len('):
                b, proj = self.place(fr, inner)
                v = self.load(st, b, proj)
            else:
                v = self.operand(p, fr, inner)
            return (self.length_of(st, v), 'usize')
        if s.startswith('discriminant('):
            b, proj = self.place(fr, s[13:-1])
            v = self.load(st, b, proj)
            if isinstance(v, Opaque):
                return v
            if isinstance(v, Enum):
                if v.disc is None:
                    raise Inconclusive('discriminant never set')
                return (v.disc, 'isize')
            raise Inconclusive('discriminant of %r' % (v,))
        if s.startswith('CopyForDeref('):
            b, proj = self.place(fr, s[13:-1])
            return self.load(st, b, proj)
        m = re.match(r'^(.*) as (\w+) \(IntToInt\)$', s)
        if m:
            return self.cast_int(self.operand(p, fr, m.group(1)), m.group(2))
        m = re.match(r'^(.*) as (.+?) \(([A-Za-z]+)(?:\(.*\))?(?:, \w+)?\)$', s)
        if m and m.group(3) in ('PointerCoercion', 'PtrToPtr', 'Transmute', 'ReifyFnPointer', 'PointerExposeProvenance', 'PointerWithExposedProvenance',
                                'FnPtrToPtr', 'Subtype'):
            v = self.operand(p, fr, m.group(1))
            if m.group(3) == 'Transmute':
                return self.transmute(st, v, m.group(2))
            if m.group(3) == 'PointerExposeProvenance':
                return Opaque('pointer address')
            return v
        if s.startswith('&raw mut ') or s.startswith('&raw const '):
            pl = s.split(' ', 2)[2]
            if pl.startswith('(fake) '):
                pl = pl[7:]
            return self.make_ref(p, fr, pl)
        if s.startswith('&mut '):
            return self.make_ref(p, fr, s[5:])
        if s.startswith('&'):
            pl = s[1:]
            if pl.startswith("'"):
                pl = pl.split(' ', 1)[1]
            if pl.startswith('fake shallow ') or pl.startswith('fake '):
                pl = pl.split(' ')[-1]
            return self.make_ref(p, fr, pl)
        if s.startswith('[') and s.endswith(']') and balanced(s[1:-1]):
            inner = s[1:-1]
            mm = re.match(r'^(.*); (.+)$', inner)
            if mm and balanced(mm.group(1)):
                elem = self.operand(p, fr, mm.group(1))
                nv = self.const_count(mm.group(2), fr)
                if isinstance(elem, tuple) and elem[1] != 'bool':
                    return Arr(z3.K(BV64, elem[0]), elem[1], nv)
                if isinstance(nv, int):
                    return List([elem] * nv)
                raise Inconclusive('array repeat of non-scalar with symbolic count')
            elems = [self.operand(p, fr, o) for o in split_top(inner)]
            if elems and all(isinstance(e, tuple) and e[1] != 'bool' for e in elems):
                arr = z3.K(BV64, bvv(0, elems[0][0].size()))
                for i, e in enumerate(elems):
                    arr = z3.Store(arr, bv64(i), e[0])
                return Arr(arr, elems[0][1], len(elems))
            return List(elems)
        if s.startswith('(') and s.endswith(')') and not s.startswith('(*') and balanced(s[1:-1]):
            inner = s[1:-1]
            parts = split_top(inner)
            if len(parts) > 1 or inner.endswith(','):
                return Agg('tuple', [self.operand(p, fr, o) for o in parts])
        if s == '()':
            return unit()
        if s.startswith(('copy ', 'move ', 'const ', 'no_retag ')):
            return self.operand(p, fr, s)
        if s.startswith('SizeOf(') or s.startswith('AlignOf('):
            ty = s[s.index('(') + 1:-1]
            if ty in INT_BITS:
                return (bv64(INT_BITS[ty] // 8), 'usize')
            return Opaque(s)
        if s.startswith('ShallowInitBox('):
            return Opaque('ShallowInitBox')
        # closures:  {closure@path:l:c: l:c} { a: move _1 }   or bare
        if s.startswith('{closure@') or s.startswith('{coroutine@') or s.startswith('{async '):
            mm = re.match(r'^(\{.*?\}) \{ (.*) \}$', s)
            if mm:
                return Agg('closure', [self.operand(p, fr, f.split(': ', 1)[1]) for f in split_top(mm.group(2))], mm.group(1))
            return Agg('closure', (), s)
        # struct / enum aggregates
        mm = re.match(r'^(.+?) \{ (.*) \}$', s)
        if mm and balanced(mm.group(1)):
            head = mm.group(1)
            fields = [self.operand(p, fr, f.split(': ', 1)[1]) for f in split_top(mm.group(2))]
            hm = re.match(r'^(.*)::([A-Z]\w*)$', strip_generics(head))
            if hm and self.prog.enum_info(hm.group(1).split('::')[-1]) and self._is_variant(hm.group(1).split('::')[-1], hm.group(2)):
                ename = hm.group(1).split('::')[-1]
                return Enum(self.disc_of(hm.group(1), hm.group(2)), {hm.group(2): tuple(fields)}, ename)
            return Agg('struct', fields, strip_generics(head).split('::')[-1])
        k = _last_balanced_open(s) if s.endswith(')') else -1
        if k > 0:
            head, argtxt = s[:k], s[k + 1:-1]
            hm = re.match(r'^(.*)::([A-Z]\w*)$', strip_generics(head))
            if hm:
                variant = hm.group(2)
                args = [self.operand(p, fr, o) for o in split_top(argtxt)]
                ename = hm.group(1).split('::')[-1]
                if variant in WELL_KNOWN_ENUM and WELL_KNOWN_ENUM[variant] == ename:
                    return Enum(bvv(WELL_KNOWN_DISC[variant], 64), {variant: tuple(args)}, ename)
                if self.prog.enum_info(ename) and self._is_variant(ename, variant):
                    return Enum(self.disc_of(hm.group(1), variant), {variant: tuple(args)}, ename)
                # tuple struct
                return Agg('struct', args, variant)
            hm = re.match(r'^([A-Za-z_][\w:]*)$', strip_generics(head))
            if hm:
                args = [self.operand(p, fr, o) for o in split_top(argtxt)]
                return Agg('struct', args, hm.group(1).split('::')[-1])
        # unit-like enum variant / unit struct
        hm = re.match(r'^(.*)::([A-Z]\w*)$', strip_generics(s))
        if hm:
            ename = hm.group(1).split('::')[-1]
            variant = hm.group(2)
            if variant in WELL_KNOWN_ENUM and WELL_KNOWN_ENUM[variant] == ename:
                return Enum(bvv(WELL_KNOWN_DISC[variant], 64), {}, ename)
            if self.prog.enum_info(ename) and self._is_variant(ename, variant):
                return Enum(self.disc_of(hm.group(1), variant), {}, ename)
            return Agg('struct', (), variant)
        if re.match(r'^[A-Za-z_][\w:]*$', s):
            dt = getattr(self, '_dst_ty', None)
            if dt and '::' not in s:
                ename = strip_generics(dt).split('::')[-1]
                if self.prog.enum_info(ename) and self._is_variant(ename, s):
                    return Enum(self.disc_of(dt, s), {}, ename)
            return Agg('struct', (), s.split('::')[-1])
        raise Inconclusive('rvalue ' + s)

    def _is_variant(self, ename, variant):
        infos = self.prog.enum_info(ename)
        return any(n == variant for _f, names in infos for n, _d in names)

    def const_count(self, txt, fr):
        txt = txt.strip()
        if txt.startswith('const '):
            txt = txt[6:]
        if re.match(r'^\d+$', txt):
            return int(txt)
        m = re.match(r'^(\d+)_usize$', txt)
        if m:
            return int(m.group(1))
        v = self.const_value(txt, fr.fn)
        if isinstance(v, tuple):
            s = z3.simplify(v[0])
            if z3.is_bv_value(s):
                return s.as_long()
        raise Inconclusive('array length ' + txt)

    def length_of(self, st, v):
        v = self.deref_all(st, v)
        if isinstance(v, Arr):
            return v.nterm()
        if isinstance(v, (Buf, SRef)):
            return v.len
        if isinstance(v, List):
            return bv64(len(v.items))
        raise Inconclusive('length of %r' % (v,))

    def transmute(self, st, v, ty):
        # NonNull<T>/Unique<T> -> *const T : unwrap single-field wrappers round a reference
        n = 0
        while isinstance(v, Agg) and len(v.fields) >= 1 and v.kind != 'closure' and n < 4:
            if isinstance(v.fields[0], (Ref, SRef)) or (isinstance(v.fields[0], Agg)):
                v = v.fields[0]
                n += 1
            else:
                break
        return v

    def make_ref(self, p, fr, pl):
        b, proj = self.place(fr, pl)
        st = p.st
        # reborrow &(*_x) / &mut (*_x): the reference itself
        if proj and proj[-1] == ('deref',):
            inner = self.load(st, b, proj[:-1])
            if isinstance(inner, (Ref, SRef)):
                return inner
            if isinstance(inner, (Buf, Arr, List, Opaque)):
                # by-value slice-like: reference to the place holding it
                return Ref(b, proj[:-1])
        # resolve index projections now (the index local may change later)
        if any(q[0] == 'index' for q in proj):
            np_ = []
            for q in proj:
                if q[0] == 'index':
                    idx = z3.simplify(st[q[1]][0])
                    if z3.is_bv_value(idx):
                        np_.append(('cindex', idx.as_long(), False))
                    else:
                        raise Inconclusive('reference to symbolically indexed element')
                else:
                    np_.append(q)
            proj = tuple(np_)
        # normalise through references inside the projection so the Ref is frame independent
        if any(q[0] == 'deref' for q in proj):
            cur_b, cur_p = b, ()
            for q in proj:
                if q[0] == 'deref':
                    v = self.load(st, cur_b, cur_p)
                    if isinstance(v, Ref):
                        cur_b, cur_p = v.base, v.proj
                        continue
                    if isinstance(v, Agg) and v.kind == 'box':
                        cur_b, cur_p = v.fields[0].base, v.fields[0].proj
                        continue
                    if isinstance(v, SRef):
                        raise Inconclusive('reference into slice ref element')
                    # transparent
                    continue
                cur_p = cur_p + (q,)
            return Ref(cur_b, cur_p)
        return Ref(b, proj)

    # ------------------------------------------------------------------ running
    def new_frame(self, p, fn, args, dest=None, ret_bb=None, post=None, caller=None):
        if len(p.frames) >= self.max_depth:
            raise Inconclusive('call depth limit at ' + fn.name)
        p.nframe += 1
        fr = Frame(fn, p.nframe, dest, ret_bb, post, caller)
        pfx = '%d:' % fr.id
        if len(args) != len(fn.params):
            # closures called through Fn* traits receive (env, (args...)) tupled
            if len(fn.params) >= 1 and len(args) == 2 and isinstance(args[1], Agg) and args[1].kind == 'tuple' and len(args[1].fields) + 1 == len(fn.params):
                args = [args[0]] + list(args[1].fields)
            else:
                raise Inconclusive('arity mismatch calling %s: %d vs %d' % (fn.name, len(args), len(fn.params)))
        for (pn, _pt), av in zip(fn.params, args):
            p.st[pfx + pn] = av
        p.frames.append(fr)
        self.encoded_fns.add('%s::%s' % (fn.crate, fn.name))
        return fr

    def run(self, fn, args, pcs, ghost=None, st0=None):
        """explore all paths of fn(args); returns list of finished Path objects"""
        p = Path()
        if st0:
            p.st.update(st0)
        p.pcs = list(pcs)
        if ghost:
            p.ghost = ghost
        self.new_frame(p, fn, args)
        return self.explore([p])

    def resume(self, p, fn, args):
        """run another call on the final state of a finished path (its state, path condition and ghost log carry over)"""
        q = p.fork()
        q.frames = []
        q.status = 'running'
        q.ret = None
        q.note = None
        for k in [k for k in q.st if not k.startswith('#')]:
            del q.st[k]
        self.new_frame(q, fn, args)
        return self.explore([q])

    def explore(self, work):
        done = []
        while work:
            p = work.pop()
            try:
                self.run_path(p, work)
            except Inconclusive as e:
                p.status = 'inconclusive'
                p.note = str(e) + ' in ' + (p.frames[-1].fn.name + ':' + p.frames[-1].bb if p.frames else '?')
            if p.status == 'dead':
                continue
            if p.status == 'running':
                p.status = 'dead'
                continue
            done.append(p)
            self.stats.paths += 1
            if self.stats.paths > self.max_paths:
                q = Path()
                q.status = 'inconclusive'
                q.note = 'path budget exceeded'
                done.append(q)
                break
        return done

    def parsed(self, fn, bb):
        cache = fn._parsed
        if cache is None:
            cache = {}
            fn._parsed = cache
        if bb not in cache:
            cache[bb] = [parse_stmt(s) for s in fn.blocks[bb]]
        return cache[bb]

    def unroll_limit(self, fn):
        for k, v in self.unroll_for.items():
            if fn.name.endswith(k):
                return v
        return self.unroll

    def run_path(self, p, work):
        if p.status != 'running':
            return
        while True:
            fr = p.frames[-1]
            fr.visits[fr.bb] = fr.visits.get(fr.bb, 0) + 1
            if fr.visits[fr.bb] == 2 and self.cut_loops and any(fr.fn.name.endswith(k) and fr.bb == bb for k, bb in self.cut_loops):
                # induction over loop iterations: the state at this loop head is an instance of the arbitrary state the
                # exploration started from (stated per job), so the continuation is already covered
                p.status = 'cut'
                p.note = '%s:%s' % (fr.fn.name, fr.bb)
                return
            if fr.visits[fr.bb] > self.unroll_limit(fr.fn):
                p.status = 'unwound'
                p.note = '%s:%s' % (fr.fn.name, fr.bb)
                self.stats.unwound += 1
                return
            nxt = None
            for st in self.parsed(fr.fn, fr.bb):
                k = st[0]
                if k == 'nop':
                    continue
                if k == 'assign':
                    b, proj = self.place(fr, st[1])
                    self._dst_ty = fr.fn.locals.get(st[1]) if not proj else None
                    self.store(p.st, b, proj, self.rvalue(p, fr, st[2]))
                    continue
                if k == 'goto':
                    nxt = st[1]
                    break
                if k == 'switch':
                    nxt = self.do_switch(p, fr, st, work)
                    break
                if k == 'assert':
                    nxt = self.do_assert(p, fr, st)
                    break
                if k == 'call':
                    nxt = self.do_call(p, fr, st, work)
                    break
                if k == 'return':
                    nxt = self.do_return(p, fr)
                    break
                if k == 'setdisc':
                    b, proj = self.place(fr, st[1])
                    v = self.load(p.st, b, proj) if b in p.st else None
                    if isinstance(v, Enum):
                        nv = Enum(bvv(st[2], 64), v.payloads, v.ename)
                    else:
                        nv = Enum(bvv(st[2], 64), {}, '?')
                    self.store(p.st, b, proj, nv)
                    continue
                if k == 'assume':
                    v = self.operand(p, fr, st[1])
                    if isinstance(v, tuple):
                        p.pcs.append(v[0])
                    continue
                if k == 'unreachable':
                    p.status = 'dead'
                    return
                if k == 'end':
                    p.status = 'dead'
                    return
                if k == 'copy_nonoverlapping':
                    self.do_copy_nonoverlapping(p, fr, st)
                    continue
                raise Inconclusive('stmt kind ' + k)
            if nxt is None:
                raise Inconclusive('block without terminator %s:%s' % (fr.fn.name, fr.bb))
            if nxt == 'END':
                return
            if nxt == 'CONT':
                continue
            p.frames[-1].bb = nxt

    def do_copy_nonoverlapping(self, p, fr, st):
        dst = self.operand(p, fr, st[1])
        src = self.operand(p, fr, st[2])
        cnt = self.operand(p, fr, st[3])
        sa, so, _sl = self.bytes_view(p.st, src)
        self.bytes_fill(p.st, self.as_sref(p.st, dst), sa, so, cnt[0])

    def do_switch(self, p, fr, st, work):
        v = self.operand(p, fr, st[1])
        if isinstance(v, Opaque):
            raise Inconclusive('branch on opaque value: ' + v.why)
        if isinstance(v, Enum):
            v = (v.disc, 'isize')
        x, t = v
        arms = []
        others = []
        for k, tgt in st[2]:
            if k is None:
                arms.append((None, tgt))
            else:
                c = (x == (k != 0)) if t == 'bool' else (x == bvv(k, x.size()))
                arms.append((c, tgt))
                others.append(c)
        feas = []
        self.stats.branches += 1
        for c, tgt in arms:
            cond = c if c is not None else (z3.Not(z3.Or(*others)) if others else T)
            cond = z3.simplify(cond)
            if z3.is_false(cond):
                continue
            if z3.is_true(cond):
                feas = [(cond, tgt)]
                break
            if self.feasible(p, cond):
                feas.append((cond, tgt))
        if not feas:
            p.status = 'dead'
            return 'END'
        for cond, tgt in feas[1:]:
            q = p.fork()
            q.pcs.append(cond)
            q.frames[-1].bb = tgt
            work.append(q)
        p.pcs.append(feas[0][0])
        return feas[0][1]

    def do_assert(self, p, fr, st):
        _k, neg, opnd, msg, succ = st
        v = self.operand(p, fr, opnd)
        if isinstance(v, Opaque):
            raise Inconclusive('assert on opaque value')
        cond = z3.Not(v[0]) if neg else v[0]
        if self.release_mode and ('overflow' in msg) and not ('shift' in msg and False):
            # release profile: arithmetic overflow wraps; no obligation, no assumption
            return succ
        site = '%s@%s' % (fr.fn.name, fr.bb)
        if not self.oblig(p, cond, 'assert', msg, site):
            p.status = 'dead'
            return 'END'
        return succ

    def do_return(self, p, fr):
        pfx = '%d:' % fr.id
        ret = p.st.get(pfx + '_0', unit())
        p.frames.pop()
        if fr.post is not None:
            ret = fr.post(self, p, ret)
        if not p.frames:
            p.status = 'return'
            p.ret = ret
            return 'END'
        # drop the callee's locals
        for k in [k for k in p.st if k.startswith(pfx)]:
            del p.st[k]
        caller = p.frames[-1]
        if fr.dest is not None:
            b, proj = self.place(caller, fr.dest)
            self.store(p.st, b, proj, ret)
        if fr.ret_bb is None:
            p.status = 'dead'
            return 'END'
        caller.bb = fr.ret_bb
        return 'CONT'

    # ------------------------------------------------------------------ calls
    def do_call(self, p, fr, st, work):
        _k, dest, func, argtxt, ret_bb = st
        func = func.strip()
        args = [self.operand(p, fr, a) for a in split_top(argtxt)] if argtxt.strip() else []
        site = '%s@%s' % (fr.fn.name, fr.bb)
        outs = self.call_outcomes(p, fr, func, args, site)
        if outs is None:
            # inline a repo function
            callee = self.prog.resolve(func, fr.fn.crate)
            summ = self.try_summarize(p, callee, args)
            if summ is not None:
                outs = [dict(value=summ)]
            else:
                self.new_frame(p, callee, args, dest, ret_bb)
                return 'CONT'
        feas = []
        for o in outs:
            c = z3.simplify(o.get('cond', T))
            if z3.is_false(c):
                continue
            if z3.is_true(c) or self.feasible(p, c):
                feas.append((c, o))
        if not feas:
            p.status = 'dead'
            return 'END'
        paths = [p] + [p.fork() for _ in feas[1:]]
        result = None
        for q, (c, o) in zip(paths, feas):
            r = self.apply_outcome(q, c, o, dest, ret_bb, site)
            if q is p:
                result = r
            elif r != 'END' or q.status not in ('dead', 'running'):
                work.append(q)
        return result

    def apply_outcome(self, q, c, o, dest, ret_bb, site):
        fr = q.frames[-1]
        if not z3.is_true(c):
            q.pcs.append(c)
        for (oc, msg) in o.get('oblig', ()):
            if not self.oblig(q, oc, 'precondition', msg, site):
                q.status = 'dead'
                return 'END'
        if o.get('stop'):
            if 'apply' in o:
                o['apply'](q)
            q.status = 'stopped'
            q.note = o.get('stop')
            return 'END'
        if 'panic' in o:
            self.stats.obligations += 1
            v = Violation('panic', o['panic'], site, None, fr.fn.name)
            ok, model = self.check(q.pcs)
            if ok:
                model = self.small_model(q.pcs, model)
                v.model = self.concretize(model, q)
                if self.violation_filter is None or self.violation_filter(v, q):
                    self.violations.append(v)
            else:
                self.stats.discharged += 1
            q.status = 'dead'
            return 'END'
        if 'assume' in o:
            q.pcs.append(o['assume'])
        if 'apply' in o:
            o['apply'](q)
        if 'inline' in o:
            callee, cargs, post = o['inline']
            self.new_frame(q, callee, cargs, dest, ret_bb, post)
            return 'CONT'
        if dest is not None and 'value' in o:
            b, proj = self.place(fr, dest)
            self.store(q.st, b, proj, o['value'])
        if ret_bb is None:
            q.status = 'dead'
            return 'END'
        fr.bb = ret_bb
        return 'CONT'

    def call_outcomes(self, p, fr, func, args, site):
        """list of outcome dicts, or None to inline the repo function"""
        for rx, h in self.overrides:
            m = rx.search(func)
            if m:
                r = h(self, p, m, args, func, fr)
                if r is not None:
                    return r
        g = strip_generics(func)
        if g.startswith(PANIC_FNS) or func.startswith(PANIC_FNS):
            return [dict(panic=func)]
        dm = re.match(r'^<dyn (.+?) as (.+?)>::(\w+)$', func)
        if dm and args:
            # dynamic dispatch: the receiver's concrete type is known to the executor
            recv = self.deref_all(p.st, args[0]) if isinstance(args[0], Ref) else args[0]
            tname = getattr(recv, 'name', None)
            if tname:
                tr = strip_generics(dm.group(2)).split('::')[-1]
                cands = [f for f in self.prog.by_last.get(dm.group(3), []) if f.impl and f.impl[1] == tname and f.impl[0] == tr and f.impl[3] == dm.group(3)]
                if len(cands) == 1:
                    return [dict(inline=(cands[0], list(args), None))]
            raise Inconclusive('dynamic dispatch on unknown receiver: ' + func)
        cm = re.match(r'^<(.+) as (?:std::ops::)?(FnOnce|FnMut|Fn)<.*>>::(call_once|call_mut|call)$', func)
        if cm and args:
            cl = args[0]
            if isinstance(cl, Ref):
                cl = self.deref_all(p.st, cl)
            from . import models as _m
            body = _m._closure_fn(self, fr, cl, func)
            if body is None and isinstance(cl, Agg) and cl.kind == 'fnitem':
                body = self.prog.resolve(cl.name, fr.fn.crate)
                if body is not None:
                    targs = list(args[1].fields) if isinstance(args[1], Agg) else [args[1]]
                    return [dict(inline=(body, targs, None))]
            if body is not None:
                targs = list(args[1].fields) if (len(args) > 1 and isinstance(args[1], Agg) and args[1].kind == 'tuple') else list(args[1:])
                return [dict(inline=(body, [args[0]] + targs, None))]
        for rx, h in self.models:
            m = rx.search(func)
            if m:
                r = h(self, p, m, args, func, fr)
                if r is not None:
                    return r
        callee = self.prog.resolve(func, fr.fn.crate)
        if callee is not None and not any(callee.name.endswith(k) for k in self.no_inline):
            return None
        # unknown: opaque result; refuse if it could mutate modelled state
        self.opaque_calls[g] = self.opaque_calls.get(g, 0) + 1
        from . import models
        if not models.effect_free(g):
            for a in args:
                if isinstance(a, (Ref, SRef)):
                    try:
                        t = self.deref_all(p.st, a) if isinstance(a, Ref) else a
                    except Inconclusive:
                        t = None
                    if t is not None and not isinstance(t, Opaque) and '&mut' in self.arg_types_hint(fr, func):
                        raise Inconclusive('unmodelled call with mutable access to modelled state: ' + func)
        return [dict(value=Opaque('call ' + g))]

    def arg_types_hint(self, fr, func):
        return func

    # ---- summaries of pure scalar functions: explore in isolation, merge the returns with ite -------------
    def try_summarize(self, p, callee, args):
        if not self.summarize or callee.name in self._no_summary:
            return None
        if not all(_pure_arg(a) for a in args):
            if not all(_pure_arg(a) or isinstance(a, Ref) for a in args):
                return None
            if any(('&mut' in pt or '*mut' in pt or 'Cell' in pt or 'Mutex' in pt) for _pn, pt in callee.params) or 'mut' in callee.ret:
                return None
        if len(callee.blocks) > 80 or len(p.frames) >= self.max_depth - 2:
            return None
        q = p.fork()
        q.frames = []
        q.nframe = p.nframe + 1000 * (len(p.frames) + 1)
        saved_paths = self.stats.paths
        try:
            self.new_frame(q, callee, list(args))
            self._summ_depth += 1
            done = self.explore([q])
        finally:
            self._summ_depth -= 1
        self.stats.paths = saved_paths
        rets = []
        for r in done:
            if r.status == 'return':
                extra = r.pcs[len(p.pcs):]
                rets.append((z3.And(*extra) if extra else T, r.ret))
            elif r.status in ('inconclusive', 'unwound'):
                self._no_summary.add(callee.name)
                return None
        if not rets:
            return None
        try:
            merged = merge_values(rets)
        except _NoMerge:
            self._no_summary.add(callee.name)
            return None
        # the caller continues only along one of the callee's returning paths (keeps assumptions made inside the callee)
        cover = z3.simplify(z3.Or(*[c for c, _v in rets]))
        if not z3.is_true(cover):
            p.pcs.append(cover)
        return merged


class _NoMerge(Exception):
    pass


def _pure_arg(a):
    if isinstance(a, tuple):
        return True
    if isinstance(a, Enum):
        return all(_pure_arg(f) for fs in a.payloads.values() for f in fs)
    if isinstance(a, Agg) and a.kind in ('tuple', 'zst', 'fnitem'):
        return all(_pure_arg(f) for f in a.fields)
    return False


def merge_values(rets):
    """rets: [(cond, value)] with mutually exclusive conds covering the feasible cases -> one value"""
    if len(rets) == 1:
        return rets[0][1]
    vals = [v for _c, v in rets]
    if all(isinstance(v, Opaque) for v in vals):
        return vals[0]
    if all(isinstance(v, tuple) for v in vals):
        if len(set(v[1] for v in vals)) != 1:
            raise _NoMerge()
        t = vals[-1][0]
        for c, v in reversed(rets[:-1]):
            t = z3.If(c, v[0], t)
        return (z3.simplify(t), vals[0][1])
    if all(isinstance(v, Enum) for v in vals):
        d = vals[-1].disc
        for c, v in reversed(rets[:-1]):
            d = z3.If(c, v.disc, d)
        payloads = {}
        for var in set(k for v in vals for k in v.payloads):
            sub = [(c, v.payloads[var]) for c, v in rets if var in v.payloads]
            n = len(sub[0][1])
            if any(len(fs) != n for _c, fs in sub):
                raise _NoMerge()
            payloads[var] = tuple(merge_values([(c, fs[i]) for c, fs in sub]) for i in range(n))
        return Enum(z3.simplify(d), payloads, vals[0].ename)
    if all(isinstance(v, Agg) for v in vals):
        n = len(vals[0].fields)
        if any(len(v.fields) != n or v.kind != vals[0].kind for v in vals):
            raise _NoMerge()
        return Agg(vals[0].kind, [merge_values([(c, v.fields[i]) for c, v in rets]) for i in range(n)], vals[0].name)
    raise _NoMerge()


def copy_into(dst_arr, dst_pos, src_arr, src_off, n):
    """array equal to dst_arr except [dst_pos, dst_pos+n) := src_arr[src_off ..)"""
    ns = z3.simplify(n)
    if z3.is_bv_value(ns) and ns.as_long() <= 64:
        a = dst_arr
        for i in range(ns.as_long()):
            a = z3.Store(a, dst_pos + bv64(i), z3.Select(src_arr, src_off + bv64(i)))
        return a
    i = z3.BitVec('i!lam', 64)
    return z3.Lambda([i], z3.If(z3.ULT(i - dst_pos, n), z3.Select(src_arr, src_off + (i - dst_pos)), z3.Select(dst_arr, i)))


def _unescape(s):
    out = []
    i = 0
    while i < len(s):
        c = s[i]
        if c == '\\':
            n = s[i + 1]
            if n == 'x':
                out.append(int(s[i + 2:i + 4], 16))
                i += 4
                continue
            if n == 'u':
                j = s.index('}', i)
                out.extend(chr(int(s[i + 3:j], 16)).encode())
                i = j + 1
                continue
            out.append({'n': 10, 'r': 13, 't': 9, '0': 0, '\\': 92, '"': 34, "'": 39}[n])
            i += 2
            continue
        out.extend(c.encode())
        i += 1
    return out
