"""Regenerates the MIR dumps from /repo's working tree and loads them into a Program."""
import hashlib
import os
import subprocess
import sys
import time

from .mir import Program

REPO = os.environ.get('VERIF_REPO', '/repo')
VERIF = os.path.dirname(os.path.dirname(os.path.abspath(__file__)))
BUILD = os.environ.get('VERIF_BUILD') or os.path.join(VERIF, '.build')
MIR_TARGET = os.path.join(BUILD, 'mir')

CRATES = [
    ('octo-squirrel', ['--features', 'server,client']),
    ('octo-squirrel-server', []),
    ('octo-squirrel-client', []),
]


def source_hash():
    h = hashlib.sha256()
    for root, dirs, files in os.walk(REPO):
        dirs[:] = sorted(d for d in dirs if d not in ('target', '.git'))
        for f in sorted(files):
            if f.endswith('.rs') or f in ('Cargo.toml', 'Cargo.lock'):
                pth = os.path.join(root, f)
                h.update(pth.encode())
                with open(pth, 'rb') as fh:
                    h.update(fh.read())
    return h.hexdigest()[:16]


def dump_mir(crate, extra, nonce, log):
    os.makedirs(BUILD, exist_ok=True)
    out = os.path.join(BUILD, crate + '.mir')
    env = dict(os.environ)
    env['CARGO_NET_OFFLINE'] = 'true'
    env.pop('RUSTFLAGS', None)
    cmd = ['cargo', '+nightly', 'rustc', '--offline', '-p', crate, '--lib'] + extra + ['--target-dir', MIR_TARGET, '--',
           '-Zunpretty=mir', '-C', 'debug-assertions=off', '-C', 'overflow-checks=on', '--cfg', 'verif_nonce="%s"' % nonce, '-A', 'unexpected_cfgs']
    t0 = time.time()
    with open(out + '.tmp', 'w') as fh:
        r = subprocess.run(cmd, cwd=REPO, stdout=fh, stderr=subprocess.PIPE, env=env, text=True)
    if r.returncode != 0:
        sys.stderr.write(r.stderr[-4000:])
        raise RuntimeError('MIR dump of %s failed (does /repo compile?)' % crate)
    os.replace(out + '.tmp', out)
    if os.path.getsize(out) < 1000:
        raise RuntimeError('MIR dump of %s is empty' % crate)
    log.append('%s: %.1fs' % (crate, time.time() - t0))
    return out


def load_program(regen=True, log=None):
    """dump (unless regen=False and dumps exist) and parse; returns (Program, info dict)"""
    log = [] if log is None else log
    nonce = '%d' % int(time.time() * 1000)
    prog = Program(REPO)
    info = {'source_hash': source_hash(), 'dumps': {}}
    for crate, extra in CRATES:
        out = os.path.join(BUILD, crate + '.mir')
        if regen or not os.path.exists(out):
            dump_mir(crate, extra, nonce, log)
        text = open(out).read()
        prog.add_dump(crate, text, os.path.join(REPO, crate))
        info['dumps'][crate] = {'lines': text.count('\n'), 'sha256': hashlib.sha256(text.encode()).hexdigest()[:16]}
    info['dump_log'] = log
    return prog, info
