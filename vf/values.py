"""Value model of the MIR executor.  Scalars are plain tuples (z3 term, rust type name)."""
import z3

BV64 = z3.BitVecSort(64)
BV8 = z3.BitVecSort(8)
BYTES = z3.ArraySort(BV64, BV8)

_fresh = [0]


def fresh(prefix, sort):
    _fresh[0] += 1
    return z3.Const('%s!%d' % (prefix, _fresh[0]), sort)


def fresh_bytes(prefix):
    return fresh(prefix, BYTES)


def bv64(n):
    return z3.BitVecVal(n, 64)


def bvv(n, w):
    return z3.BitVecVal(n, w)


T = z3.BoolVal(True)
F = z3.BoolVal(False)


class Opaque:
    __slots__ = ('why',)

    def __init__(self, why):
        self.why = why

    def __repr__(self):
        return 'Opaque(%s)' % self.why


class Ref:
    """reference / raw pointer to a place: state key + projection"""
    __slots__ = ('base', 'proj')

    def __init__(self, base, proj=()):
        self.base = base
        self.proj = tuple(proj)

    def __repr__(self):
        return 'Ref(%s%s)' % (self.base, ''.join('.' + str(p[1] if len(p) > 1 else p[0]) for p in self.proj))


class Agg:
    """tuple / struct / closure environment"""
    __slots__ = ('kind', 'fields', 'name')

    def __init__(self, kind, fields, name=None):
        self.kind = kind
        self.fields = tuple(fields)
        self.name = name

    def __repr__(self):
        return '%s%s%r' % (self.kind, ':' + self.name if self.name else '', self.fields)


class Enum:
    """disc: BV64 term; payloads: dict variant name -> tuple of field values"""
    __slots__ = ('disc', 'payloads', 'ename')

    def __init__(self, disc, payloads, ename):
        self.disc = disc
        self.payloads = dict(payloads)
        self.ename = ename

    def __repr__(self):
        return 'Enum:%s(%s,%r)' % (self.ename, self.disc, self.payloads)


class Arr:
    """fixed-size array / slice of scalars: z3 Array(BV64 -> BV(elem)), length n (int or BV64 term)"""
    __slots__ = ('arr', 'elemty', 'n')

    def __init__(self, arr, elemty, n):
        self.arr, self.elemty, self.n = arr, elemty, n

    def nterm(self):
        return bv64(self.n) if isinstance(self.n, int) else self.n

    def __repr__(self):
        return 'Arr[%s;%s]' % (self.elemty, self.n)


class Buf:
    """byte buffer value: BytesMut / Bytes / Vec<u8> / String / &[u8] / &str snapshot.
    bytes are arr[off .. off+len)"""
    __slots__ = ('kind', 'arr', 'off', 'len')

    def __init__(self, kind, arr, off, len_):
        self.kind, self.arr, self.off, self.len = kind, arr, off, len_

    def with_(self, **kw):
        b = Buf(self.kind, self.arr, self.off, self.len)
        for k, v in kw.items():
            setattr(b, k, v)
        return b

    def __repr__(self):
        return 'Buf:%s(off=%s,len=%s)' % (self.kind, z3.simplify(self.off), z3.simplify(self.len))


class SRef:
    """(mutable) byte-slice window into the array owned by the place `owner` (a Ref to a Buf or Arr of
    u8).  `off` is an absolute index into the owner's array."""
    __slots__ = ('owner', 'off', 'len')

    def __init__(self, owner, off, len_):
        self.owner, self.off, self.len = owner, off, len_

    def __repr__(self):
        return 'SRef(%r,off=%s,len=%s)' % (self.owner, z3.simplify(self.off), z3.simplify(self.len))


class List:
    """bounded, concrete-length sequence of non-scalar items (Vec<T>, &[T] for T not a scalar)"""
    __slots__ = ('items',)

    def __init__(self, items):
        self.items = tuple(items)

    def __repr__(self):
        return 'List%r' % (self.items,)


def is_scalar(v):
    return isinstance(v, tuple)


def unit():
    return Agg('tuple', ())


def mk_bool(b):
    return (b, 'bool')


def opt_none():
    return Enum(bv64(0), {}, 'Option')


def opt_some(v):
    return Enum(bv64(1), {'Some': (v,)}, 'Option')


def res_ok(v):
    return Enum(bv64(0), {'Ok': (v,)}, 'Result')


def res_err(v):
    return Enum(bv64(1), {'Err': (v,)}, 'Result')
