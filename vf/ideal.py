"""Ideal-AEAD contract with a ghost log (the INT-CTXT idealisation), used by C04/C05/C06/C03/C01/C02.

A `Sealed` entry records what some party sealed: key identity, nonce, plaintext view, (optional) associated data and a fresh
128-bit tag.  `open(key, nonce, ct)` can succeed only if the log holds an entry with the same key identity and nonce, the same
length, and the entry's tag at the end of `ct`; it then yields exactly that entry's plaintext.  Two modes:
  attack : success additionally needs a free Boolean (the body may have been altered although the tag bytes are in place), so
           failing is always possible - a sound over-approximation of a real AEAD for arbitrary attacker input;
  exact  : the input is known to be a genuine stream, so a matching entry opens (used for "no stall / no error on valid input").
Key identities are injective pairings, never computed: ('raw', key bits), ('ss2022-subkey', key bits, salt bits),
('hkdf-ss-subkey', key bits, salt bits), ('kdf16|label..', key bits, ...) - derivations with different constructors never collide
(idealised KDF), equal constructors collide iff all arguments are equal.
"""
import re
import z3

from .values import *  # noqa
from .engine import Inconclusive, copy_into
from .models import one, U, target_ref
from . import crypto

TAG = 16
KID = {}   # z3 array ast id -> key identity of derived key material


class Cipher(Opaque):
    __slots__ = ('kid',)

    def __init__(self, kid):
        Opaque.__init__(self, 'cipher[%s]' % kid[0])
        self.kid = kid


class Sealed:
    def __init__(self, kid, nonce, pt, tag=None, aad=None, label=''):
        self.kid, self.nonce, self.pt, self.aad, self.label = kid, nonce, pt, aad, label
        self.tag = tag if tag is not None else fresh('tag', z3.BitVecSort(128))

    def __repr__(self):
        return 'Sealed(%s,%s)' % (self.label, self.kid[0])


def bits(arr, off, n):
    """little-endian concatenation of n bytes (byte 0 least significant)"""
    bs = [z3.Select(arr, off + bv64(i)) for i in reversed(range(n))]
    return z3.Concat(*bs) if n > 1 else bs[0]


def view_bits(ex, st, v, what='key'):
    arr, off, ln = ex.bytes_view(st, v)
    n = z3.simplify(ln)
    if not z3.is_bv_value(n):
        raise Inconclusive('ideal AEAD: %s of symbolic length' % what)
    return bits(arr, off, n.as_long()), arr


def kid_of(ex, st, v):
    b, arr = view_bits(ex, st, v)
    k = KID.get(arr.get_id())
    if k is not None:
        return k
    return ('raw', (b,))


def kid_eq(a, b):
    if a[0] != b[0] or len(a[1]) != len(b[1]):
        return F
    cs = []
    for x, y in zip(a[1], b[1]):
        if x.size() != y.size():
            return F
        cs.append(x == y)
    return z3.And(*cs) if cs else T


def derived(tag, terms, n, prefix='dk'):
    """fresh n-byte key material whose identity is the injective pairing (tag, terms)"""
    arr = fresh_bytes(prefix)
    KID[arr.get_id()] = (tag, tuple(terms))
    crypto.PROV[arr.get_id()] = tag
    return arr


def tag_at(arr, pos):
    return bits(arr, pos, TAG)


def aad_eq(ex, st, aad_view, ent):
    arr, off, ln = aad_view
    n = z3.simplify(ln)
    if ent.aad is None:
        return ln == 0
    ea, eo, el = ent.aad
    en = z3.simplify(el)
    if z3.is_bv_value(n) and z3.is_bv_value(en):
        if n.as_long() != en.as_long():
            return F
        if n.as_long() == 0:
            return T
        return bits(arr, off, n.as_long()) == bits(ea, eo, n.as_long())
    raise Inconclusive('ideal AEAD: associated data of symbolic length')


def aad_view(ex, st, v):
    t = v
    try:
        t = ex.deref_all(st, v) if isinstance(v, Ref) else v
    except Inconclusive:
        pass
    if isinstance(t, List) and not t.items:
        return (z3.K(BV64, bvv(0, 8)), bv64(0), bv64(0))
    return ex.bytes_view(st, v)


def distinct_tag(q, ent):
    """tags of different sealed messages do not collide (2^-128): keeps the log lookup unambiguous"""
    for other in q.ghost.get('sealed', []):
        q.pcs.append(ent.tag != other.tag)


def install(ex, mode='attack'):
    """put the ideal models in front of the havoc ones (crypto.install must already have run)"""
    assert mode in ('attack', 'exact')
    M = []

    def model(pattern):
        rx = re.compile(pattern)

        def deco(f):
            M.append((rx, f))
            return f
        return deco

    def cipher_of(p, v):
        c = ex.deref_all(p.st, v) if isinstance(v, Ref) else v
        if not isinstance(c, Cipher):
            raise Inconclusive('ideal AEAD: cipher without a key identity: %r' % (c,))
        return c

    def nonce_bits(p, v):
        b, _arr = view_bits(ex, p.st, v, 'nonce')
        return b

    def matches(p, kid, nb, ct_arr, ct_off, ct_len, aadv):
        """[(cond, entry)] for every log entry, cond = this entry opens"""
        out = []
        for ent in p.ghost.get('sealed', []):
            ke = kid_eq(kid, ent.kid)
            if z3.is_false(ke) or nb.size() != ent.nonce.size():
                continue
            c = z3.And(ke, nb == ent.nonce, ct_len == ent.pt[2] + bv64(TAG), tag_at(ct_arr, ct_off + ent.pt[2]) == ent.tag, aad_eq(ex, p.st, aadv, ent))
            if mode == 'attack':
                c = z3.And(c, fresh('body_intact', z3.BoolSort()))
            out.append((z3.simplify(c), ent))
        return out

    def record(q, what, ent, nb, kid):
        q.ghost.setdefault('ideal_ops', []).append((what, ent, nb, kid))

    @model(r' as (?:\w+::)*KeyInit>::new$')
    def _new(ex_, p, m, a, func, fr):
        return one(Cipher(kid_of(ex, p.st, a[0])))

    @model(r' as (?:\w+::)*KeyInit>::new_from_slice$')
    def _new_from_slice(ex_, p, m, a, func, fr):
        _arr, _off, ln = ex.bytes_view(p.st, a[0])
        want = 16 if 'Aes128' in func else 32
        ok = ln == bv64(want)
        outs = []
        if not z3.is_false(z3.simplify(ok)):
            outs.append(dict(cond=ok, value=res_ok(Cipher(kid_of(ex, p.st, a[0])))))
        outs.append(dict(cond=z3.Not(ok), value=res_err(Opaque('InvalidLength'))))
        return outs

    @model(r' as (?:\w+::)*AeadInPlace>::decrypt_in_place$')
    def _dec(ex_, p, m, a, func, fr):
        c = cipher_of(p, a[0])
        nb = nonce_bits(p, a[1])
        tr = target_ref(ex, p, a[3])
        b = ex.load(p.st, tr.base, tr.proj)
        ms = matches(p, c.kid, nb, b.arr, b.off, b.len, aad_view(ex, p.st, a[2]))
        outs = []
        for cond, ent in ms:
            nbuf = b.with_(arr=ent.pt[0], off=ent.pt[1], len=ent.pt[2])

            def app(q, nbuf=nbuf, ent=ent):
                ex.store(q.st, tr.base, tr.proj, nbuf)
                record(q, 'open', ent, nb, c.kid)
            outs.append(dict(cond=cond, value=res_ok(U()), apply=app))
        fail = z3.Not(z3.Or(*[cond for cond, _e in ms])) if ms else T
        outs.append(dict(cond=fail, value=res_err(Opaque('aead::Error')), apply=lambda q: record(q, 'open-fail', None, nb, c.kid)))
        return outs

    @model(r' as (?:\w+::)*AeadInPlace>::decrypt_in_place_detached$')
    def _dec_det(ex_, p, m, a, func, fr):
        # (cipher, nonce, aad, buffer, tag): body and tag are separate slices
        c = cipher_of(p, a[0])
        nb = nonce_bits(p, a[1])
        s = ex.as_sref(p.st, a[3])
        ba, bo, bl = ex.bytes_view(p.st, s)
        ta, to, _tl = ex.bytes_view(p.st, a[4])
        outs = []
        conds = []
        for ent in p.ghost.get('sealed', []):
            ke = kid_eq(c.kid, ent.kid)
            if z3.is_false(ke) or nb.size() != ent.nonce.size():
                continue
            cond = z3.And(ke, nb == ent.nonce, bl == ent.pt[2], tag_at(ta, to) == ent.tag, aad_eq(ex, p.st, aad_view(ex, p.st, a[2]), ent))
            if mode == 'attack':
                cond = z3.And(cond, fresh('body_intact', z3.BoolSort()))
            cond = z3.simplify(cond)
            conds.append(cond)

            def app(q, ent=ent):
                ex.bytes_fill(q.st, s, ent.pt[0], ent.pt[1], ent.pt[2])
                record(q, 'open', ent, nb, c.kid)
            outs.append(dict(cond=cond, value=res_ok(U()), apply=app))
        fail = z3.Not(z3.Or(*conds)) if conds else T
        outs.append(dict(cond=fail, value=res_err(Opaque('aead::Error')), apply=lambda q: record(q, 'open-fail', None, nb, c.kid)))
        return outs

    @model(r' as (?:\w+::)*AeadInPlace>::encrypt_in_place$')
    def _enc(ex_, p, m, a, func, fr):
        c = cipher_of(p, a[0])
        nb = nonce_bits(p, a[1])
        tr = target_ref(ex, p, a[3])
        b = ex.load(p.st, tr.base, tr.proj)
        aa, ao, al = aad_view(ex, p.st, a[2])
        ent = Sealed(c.kid, nb, (b.arr, b.off, b.len), aad=None if z3.is_true(z3.simplify(al == 0)) else (aa, ao, al), label='seal#%d' % (len(p.ghost.get('sealed', [])),))
        ct = fresh_bytes('ct')
        arr = copy_into(b.arr, b.off, ct, bv64(0), b.len)
        pos = b.off + b.len
        for i in range(TAG):
            arr = z3.Store(arr, pos + bv64(i), z3.Extract(8 * i + 7, 8 * i, ent.tag))
        nbuf = b.with_(arr=arr, len=b.len + bv64(TAG))

        def app(q):
            ex.store(q.st, tr.base, tr.proj, nbuf)
            distinct_tag(q, ent)
            q.ghost.setdefault('sealed', []).append(ent)
            record(q, 'seal', ent, nb, c.kid)
        return [dict(value=res_ok(U()), apply=app)]

    @model(r' as (?:\w+::)*AeadInPlace>::encrypt_in_place_detached$')
    def _enc_det(ex_, p, m, a, func, fr):
        c = cipher_of(p, a[0])
        nb = nonce_bits(p, a[1])
        s = ex.as_sref(p.st, a[3])
        sa, so, sl = ex.bytes_view(p.st, s)
        aa, ao, al = aad_view(ex, p.st, a[2])
        ent = Sealed(c.kid, nb, (sa, so, sl), aad=None if z3.is_true(z3.simplify(al == 0)) else (aa, ao, al), label='seal#%d' % (len(p.ghost.get('sealed', [])),))
        tagarr = z3.K(BV64, bvv(0, 8))
        for i in range(TAG):
            tagarr = z3.Store(tagarr, bv64(i), z3.Extract(8 * i + 7, 8 * i, ent.tag))

        def app(q):
            ex.bytes_fill(q.st, s, fresh_bytes('ct'), bv64(0), sl)
            distinct_tag(q, ent)
            q.ghost.setdefault('sealed', []).append(ent)
            record(q, 'seal', ent, nb, c.kid)
        return [dict(value=res_ok(Arr(tagarr, 'u8', TAG)), apply=app)]

    @model(r' as (?:\w+::)*Aead>::(encrypt|decrypt)::<.*>$')
    def _vec(ex_, p, m, a, func, fr):
        c = cipher_of(p, a[0])
        nb = nonce_bits(p, a[1])
        payload = a[2]
        if isinstance(payload, Agg) and len(payload.fields) == 2:
            msg, aad = payload.fields
            aadv = aad_view(ex, p.st, aad)
        else:
            msg = payload
            aadv = (z3.K(BV64, bvv(0, 8)), bv64(0), bv64(0))
        ma, mo, ml = ex.bytes_view(p.st, msg)
        if m.group(1) == 'encrypt':
            ent = Sealed(c.kid, nb, (ma, mo, ml), aad=None if z3.is_true(z3.simplify(aadv[2] == 0)) else aadv, label='seal#%d' % (len(p.ghost.get('sealed', [])),))
            arr = fresh_bytes('ct')
            for i in range(TAG):
                arr = z3.Store(arr, ml + bv64(i), z3.Extract(8 * i + 7, 8 * i, ent.tag))

            def app(q):
                q.ghost.setdefault('sealed', []).append(ent)
                record(q, 'seal', ent, nb, c.kid)
            return [dict(value=res_ok(Buf('vec', arr, bv64(0), ml + bv64(TAG))), apply=app)]
        ms = matches(p, c.kid, nb, ma, mo, ml, aadv)
        outs = []
        for cond, ent in ms:
            outs.append(dict(cond=cond, value=res_ok(Buf('vec', ent.pt[0], ent.pt[1], ent.pt[2])), apply=lambda q, ent=ent: record(q, 'open', ent, nb, c.kid)))
        fail = z3.Not(z3.Or(*[cond for cond, _e in ms])) if ms else T
        outs.append(dict(cond=fail, value=res_err(Opaque('aead::Error')), apply=lambda q: record(q, 'open-fail', None, nb, c.kid)))
        return outs

    for i, mh in enumerate(M):
        ex.overrides.insert(i, mh)


def install_derivations(ex):
    """key-derivation contracts as injective pairings (replace the fresh-output contracts of common.install_repo_contracts)"""
    def session_sub_key(ex_, p, m, a, func, fr):
        kb, karr = view_bits(ex_, p.st, a[0])
        sb, _ = view_bits(ex_, p.st, a[1], 'salt')
        kk = KID.get(karr.get_id())
        terms = (kb, sb) if kk is None else kk[1] + (sb,)
        tagname = 'ss2022-subkey' if kk is None else 'ss2022-subkey(' + kk[0] + ')'
        return one(Arr(derived(tagname, terms, 32, 'subkey'), 'u8', 32))

    def hkdfsha1(ex_, p, m, a, func, fr):
        kb, _karr = view_bits(ex_, p.st, a[0])
        sb, _ = view_bits(ex_, p.st, a[1], 'salt')
        _arr, _off, ln = ex_.bytes_view(p.st, a[1])
        return [dict(value=res_ok(Buf('vec', derived('hkdf-ss-subkey', (kb, sb), None, 'hkdf'), bv64(0), ln)))]
    def chacha_key(ex_, p, m, a, func, fr):
        kb, karr = view_bits(ex_, p.st, a[0])
        kk = KID.get(karr.get_id())
        terms = (kb,) if kk is None else kk[1]
        tagname = 'vmess-chacha' if kk is None else 'vmess-chacha(' + kk[0] + ')'
        return one(Arr(derived(tagname, terms, 32, 'chachakey'), 'u8', 32))

    def kdf16(ex_, p, m, a, func, fr):
        kb, _karr = view_bits(ex_, p.st, a[0])
        labels, terms = [], [kb]
        lst = ex_.deref_all(p.st, a[1]) if isinstance(a[1], Ref) else a[1]
        for it in getattr(lst, 'items', ()):
            la, lo, ll = ex_.bytes_view(p.st, it)
            n = z3.simplify(ll)
            if not z3.is_bv_value(n):
                raise Inconclusive('kdf16 path element of symbolic length')
            bs = [z3.simplify(z3.Select(la, lo + bv64(i))) for i in range(n.as_long())]
            if all(z3.is_bv_value(b) for b in bs):
                labels.append(''.join(chr(b.as_long()) for b in bs))
            else:
                labels.append('*%d' % n.as_long())
                terms.append(bits(la, lo, n.as_long()))
        return one(Arr(derived('kdf16|' + '|'.join(labels), terms, 16, 'kdf16'), 'u8', 16))
    def kdfn(ex_, p, m, a, func, fr):
        n = int(m.group(1)) if m.group(1).isdigit() else ex_.const_generics[m.group(1)]
        kb, _karr = view_bits(ex_, p.st, a[0])
        labels, terms = [], [kb]
        lst = ex_.deref_all(p.st, a[1]) if isinstance(a[1], Ref) else a[1]
        for it in getattr(lst, 'items', ()):
            la, lo, ll = ex_.bytes_view(p.st, it)
            ln = z3.simplify(ll)
            if not z3.is_bv_value(ln):
                raise Inconclusive('kdfn path element of symbolic length')
            bs = [z3.simplify(z3.Select(la, lo + bv64(i))) for i in range(ln.as_long())]
            if all(z3.is_bv_value(b) for b in bs):
                labels.append(''.join(chr(b.as_long()) for b in bs))
            else:
                labels.append('*%d' % ln.as_long())
                terms.append(bits(la, lo, ln.as_long()))
        return one(Arr(kdf_bytes('kdfn|' + '|'.join(labels), terms, n), 'u8', n))
    ex.overrides.insert(0, (re.compile(r'(?:^|::)kdfn::<(\w+)>$'), kdfn))
    ex.overrides.insert(0, (re.compile(r'(?:^|::)generate_chacha20_poly1305_key$'), chacha_key))
    ex.overrides.insert(0, (re.compile(r'(^|::)kdf16$'), kdf16))
    ex.overrides.insert(0, (re.compile(r'(^|::)session_sub_key$'), session_sub_key))
    ex.overrides.insert(0, (re.compile(r'(^|::)hkdfsha1$'), hkdfsha1))


def kdf_fn(name, terms, n):
    """deterministic (uninterpreted) derivation of n bytes from the terms: the same inputs give the same output on both ends"""
    f = z3.Function('uf:' + name, *([t.sort() for t in terms] + [z3.BitVecSort(8 * n)]))
    return f(*terms)


def kdf_bytes(name, terms, n):
    v = kdf_fn(name, terms, n)
    arr = z3.K(BV64, bvv(0, 8))
    for i in range(n):
        arr = z3.Store(arr, bv64(i), z3.Extract(8 * i + 7, 8 * i, v))
    return arr


def cipher_method(variant, kid):
    from .props.common import CIPHER_METHOD_VARIANTS
    return Enum(bv64(CIPHER_METHOD_VARIANTS.index(variant)), {variant: (Cipher(kid),)}, 'CipherMethod')
