"""/verif/check <ID> [--tier quick|thorough] [--replay path] [--only job-substring] [--no-regen]

exit 0: property held on everything explored (KNOWN-FINDING lines allowed)
exit 1: VIOLATION property=<id> replay=<path>   (natively reproduced, not a listed known finding)
exit 2: inconclusive (engine could not decide something; never reported as success)
"""
import argparse
import importlib
import json
import os
import subprocess
import sys
import time

from . import build
from .prop import run_jobs

VERIF = build.VERIF
_OUT = os.environ.get('VERIF_BUILD') or VERIF
EVIDENCE = os.path.join(_OUT, 'evidence')
REPLAYS = os.path.join(_OUT, 'replays')
KNOWN = os.path.join(VERIF, 'known_findings.json')


def load_known():
    if os.path.exists(KNOWN):
        return json.load(open(KNOWN))
    return {'findings': [], 'fixed': []}


def replay_native(spec_path, profiles=('dev', 'release')):
    """returns dict profile -> (reproduced bool | None, output)"""
    from .replay import run_replay
    return {prof: run_replay(spec_path, prof) for prof in profiles}


def main(argv=None):
    ap = argparse.ArgumentParser()
    ap.add_argument('prop')
    ap.add_argument('--tier', default=os.environ.get('VERIF_TIER', 'quick'), choices=['quick', 'thorough'])
    ap.add_argument('--replay')
    ap.add_argument('--only')
    ap.add_argument('--no-regen', action='store_true')
    ap.add_argument('--workers', type=int, default=None)
    args = ap.parse_args(argv)
    pid = args.prop.upper()
    seed = int(os.environ.get('VERIF_SEED', '0') or 0)
    t0 = time.time()

    if args.replay:
        res = replay_native(args.replay)
        ok = any(r[0] for r in res.values())
        for prof, (rep, out) in res.items():
            print('[%s] %s\n%s' % (prof, 'REPRODUCED' if rep else 'not reproduced', out.strip()))
        if ok:
            print('VIOLATION property=%s replay=%s' % (pid, args.replay))
            return 1
        return 0

    mod = importlib.import_module('vf.props.' + pid.lower())
    print('[%s] regenerating MIR from %s ...' % (pid, build.REPO), flush=True)
    try:
        prog, info = build.load_program(regen=not args.no_regen)
    except RuntimeError as e:
        print('INCONCLUSIVE: %s' % e)
        return 2
    jobs = mod.jobs(prog, args.tier)
    if args.only:
        jobs = [j for j in jobs if args.only in j[0]]
    print('[%s] %d jobs, tier=%s, source=%s' % (pid, len(jobs), args.tier, info['source_hash']), flush=True)
    results = run_jobs(prog, jobs, args.tier, seed, args.workers)

    known = load_known()
    known_here = [k for k in known.get('findings', []) if k['property'] == pid]
    known_by_key = {k['key']: k for k in known_here}

    obligations = sum(r['obligations'] for r in results)
    discharged = sum(r['discharged'] for r in results)
    inconclusive = [(r['name'], n) for r in results for n in r['inconclusive']]
    vac_fail = [(r['name'], d) for r in results for d, ok in r['vacuity'] if not ok]
    # group violations by key
    groups = {}
    for r in results:
        for v in r['violations']:
            groups.setdefault(v['key'], []).append(v)

    os.makedirs(REPLAYS, exist_ok=True)
    new_violations = []
    known_hits = []
    unconfirmed = []
    nrep = 0
    for key, vs in sorted(groups.items()):
        sites = sorted(set(v['site'] for v in vs))
        kf = known_by_key.get(key)
        if kf is not None and len(sites) <= kf.get('sites', 1):
            known_hits.append((kf, vs))
            continue
        # native replay of the first violation that carries a replay spec
        confirmed = None
        for v in vs:
            if v.get('replay'):
                nrep += 1
                path = os.path.join(REPLAYS, '%s-%d.json' % (pid, nrep))
                spec = dict(v['replay'])
                spec.update(property=pid, key=key, msg=v['msg'], site=v['site'], model=v['model'])
                json.dump(spec, open(path, 'w'), indent=1, default=str)
                res = replay_native(path)
                if any(rep for rep, _ in res.values()):
                    confirmed = (v, path, res)
                    break
                v['replay_result'] = {k: (rep, out[-400:]) for k, (rep, out) in res.items()}
            if nrep >= 40:
                break
        if confirmed:
            new_violations.append((key, confirmed, len(sites)))
        else:
            unconfirmed.append((key, vs[0]))

    violated_keys = len(groups)
    status = 0
    for kf, vs in known_hits:
        print('KNOWN-FINDING: property=%s %s [%s]' % (pid, kf['what'], kf['key']))
    stale = [k for k in known_here if k['key'] not in groups and (not args.only)]
    for k in stale:
        print('NOTE: listed known finding no longer observed (can be pruned): %s' % k['key'])
    for key, (v, path, res), nsites in new_violations:
        print('violated: %s (%s) at %s\n  model: %s' % (v['msg'], v['kind'], v['site'], json.dumps(v['model'], default=str)[:600]))
        print('VIOLATION property=%s replay=%s' % (pid, os.path.relpath(path, VERIF)))
        status = 1
    for key, v in unconfirmed:
        print('UNCONFIRMED solver model (native replay did not reproduce or is not available): %s\n  site: %s\n  model: %s\n  %s' % (
            key, v['site'], json.dumps(v['model'], default=str)[:300], json.dumps(v.get('replay_result'), default=str)[:300]))
    for name, n in inconclusive[:40]:
        print('INCONCLUSIVE [%s]: %s' % (name, str(n)[:600]))
    for name, d in vac_fail:
        print('VACUITY guard failed [%s]: %s' % (name, d))
    if status == 0:
        if unconfirmed:
            status = 2
        if inconclusive:
            status = 2
        if vac_fail:
            status = 2

    wall = time.time() - t0
    known_obl = sum(len(vs) for _kf, vs in known_hits)
    ev = {
        'property_id': pid,
        'tier': args.tier,
        'seed': seed,
        'level': getattr(mod, 'LEVEL', 'proof'),
        'coverage': {
            'obligations': max(1, obligations - known_obl) if obligations else 0,
            'discharged': discharged,
            'checker_cmd': './check %s --tier %s' % (pid, args.tier),
            'trusted_base': getattr(mod, 'TRUSTED_BASE', []),
            'explanation': getattr(mod, 'EXPLANATION', ''),
            'known_finding_obligations_excluded': known_obl,
            'violated_obligation_groups': violated_keys,
            'new_violations': len(new_violations),
            'unconfirmed_models': len(unconfirmed),
            'inconclusive': len(inconclusive),
            'solver_queries': sum(r['queries'] for r in results),
            'solver_time_s': round(sum(r['solver_s'] for r in results), 2),
            'paths': sum(r['paths'] for r in results),
            'functions_encoded': sorted(set(f for r in results for f in r['functions'])),
            'bounds': getattr(mod, 'BOUNDS', {}),
            'mir': info,
            'jobs': [{k: r[k] for k in ('name', 'obligations', 'discharged', 'paths', 'path_classes', 'queries', 'solver_s', 'wall_s', 'bounds', 'vacuity', 'notes')} for r in results],
            'samples': [s for r in results for s in r['samples']][:24] or [r['name'] for r in results][:24],
            'opaque_calls': merge_counts(r['opaque_calls'] for r in results),
            'known_findings_seen': [kf['key'] for kf, _ in known_hits],
            'evaluations': max(1, obligations),
            'distinct_nontrivial': max(2, sum(r['queries'] for r in results)),
            'rule': 'one evaluation per proof obligation; non-trivial = needed a solver query (not discharged by simplification)',
        },
        'assumptions': getattr(mod, 'ASSUMPTIONS', []) + sorted(set(a for r in results for a in r['assumptions'])),
        'wall_s': round(wall, 2),
        'violations': len(new_violations),
        'exit_status': status,
    }
    if hasattr(mod, 'evidence_extra'):
        ev['coverage'].update(mod.evidence_extra(results))
    os.makedirs(EVIDENCE, exist_ok=True)
    tmp = os.path.join(EVIDENCE, pid + '.json.tmp')
    json.dump(ev, open(tmp, 'w'), indent=1, default=str)
    os.replace(tmp, os.path.join(EVIDENCE, pid + '.json'))
    print('[%s] obligations=%d discharged=%d known=%d new=%d unconfirmed=%d inconclusive=%d paths=%d queries=%d solver=%.1fs wall=%.1fs -> exit %d' % (
        pid, obligations, discharged, len(known_hits), len(new_violations), len(unconfirmed), len(inconclusive), ev['coverage']['paths'],
        ev['coverage']['solver_queries'], ev['coverage']['solver_time_s'], wall, status))
    return status


def merge_counts(dicts):
    out = {}
    for d in dicts:
        for k, n in d.items():
            out[k] = out.get(k, 0) + n
    return out


if __name__ == '__main__':
    sys.exit(main())
