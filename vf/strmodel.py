"""Bounded contracts for the `str` search / parse methods (core::str): the "first / last occurrence" quantifiers are expanded
over the positions 0..L-1 of a string whose length the driver bounds by L (stated in the evidence); content is ASCII (stated), so
every index is a char boundary.  Installed per Exec with `install(ex, L)`.

  rfind(char) / find(char) / find(&str const) : Option<usize>, the last / first match position
  ends_with(char) / starts_with(char), contains(char)
  split_once(char)                            : Option<(&str, &str)> at the first match
  parse::<u16|u8|u32>                          : optional '+', at least one digit, only digits, value within the type (leading zeros
                                                allowed) - the grammar documented for `FromStr for uN`
  <&str as PartialEq>::eq / <str as PartialEq>::eq : exact when one side has a constant length
"""
import re
import z3

from .values import *  # noqa
from .engine import Inconclusive
from .models import one


def _char_of(v):
    x = v[0]
    return z3.Extract(7, 0, x) if x.size() > 8 else x


def _const_bytes(ex, p, v):
    arr, off, ln = ex.bytes_view(p.st, v)
    n = z3.simplify(ln)
    if not z3.is_bv_value(n):
        raise Inconclusive('pattern of symbolic length')
    bs = [z3.simplify(z3.Select(arr, off + bv64(i))) for i in range(n.as_long())]
    return bs


def install(ex, L):
    def first_match(arr, off, ln, pat):
        """(found, index) of the first i with s[i..i+m) == pat"""
        m = len(pat)
        found = F
        idx = bv64(0)
        for i in reversed(range(L)):
            hit = z3.And(z3.ULE(bv64(i + m), ln), *[z3.Select(arr, off + bv64(i + k)) == pat[k] for k in range(m)])
            idx = z3.If(hit, bv64(i), idx)
            found = z3.Or(hit, found)
        return found, idx

    def last_match(arr, off, ln, pat):
        m = len(pat)
        found = F
        idx = bv64(0)
        for i in range(L):
            hit = z3.And(z3.ULE(bv64(i + m), ln), *[z3.Select(arr, off + bv64(i + k)) == pat[k] for k in range(m)])
            idx = z3.If(hit, bv64(i), idx)
            found = z3.Or(hit, found)
        return found, idx

    def pat_of(ex_, p, func, v):
        if '<char>' in func:
            return [_char_of(v)]
        return _const_bytes(ex_, p, v)

    def bound_ok(ln):
        return (z3.ULE(ln, bv64(L)), 'str model: string longer than the modelled bound %d' % L)

    def find(ex_, p, m, a, func, fr):
        arr, off, ln = ex_.bytes_view(p.st, a[0])
        pat = pat_of(ex_, p, func, a[1])
        found, idx = (last_match if m.group(1) == 'rfind' else first_match)(arr, off, ln, pat)
        return [dict(cond=found, value=opt_some((idx, 'usize')), oblig=[bound_ok(ln)]), dict(cond=z3.Not(found), value=opt_none(), oblig=[bound_ok(ln)])]
    ex.overrides.append((re.compile(r'^core::str::<impl str>::(rfind|find)::<(?:char|&str)>$'), find))

    def ends_with(ex_, p, m, a, func, fr):
        arr, off, ln = ex_.bytes_view(p.st, a[0])
        pat = pat_of(ex_, p, func, a[1])
        k = len(pat)
        if m.group(1) == 'ends_with':
            c = z3.And(z3.UGE(ln, bv64(k)), *[z3.Select(arr, off + ln - bv64(k - j)) == pat[j] for j in range(k)])
        elif m.group(1) == 'starts_with':
            c = z3.And(z3.UGE(ln, bv64(k)), *[z3.Select(arr, off + bv64(j)) == pat[j] for j in range(k)])
        else:
            c, _ = first_match(arr, off, ln, pat)
        return one((c, 'bool'), oblig=[bound_ok(ln)])
    ex.overrides.append((re.compile(r'^core::str::<impl str>::(ends_with|starts_with|contains)::<(?:char|&str)>$'), ends_with))

    def split_once(ex_, p, m, a, func, fr):
        arr, off, ln = ex_.bytes_view(p.st, a[0])
        pat = pat_of(ex_, p, func, a[1])
        found, idx = (last_match if m.group(1) == 'rsplit_once' else first_match)(arr, off, ln, pat)
        k = bv64(len(pat))
        pair = Agg('tuple', (Buf('str', arr, off, idx), Buf('str', arr, off + idx + k, ln - idx - k)))
        return [dict(cond=found, value=opt_some(pair), oblig=[bound_ok(ln)]), dict(cond=z3.Not(found), value=opt_none(), oblig=[bound_ok(ln)])]
    ex.overrides.append((re.compile(r'^core::str::<impl str>::(split_once|rsplit_once)::<(?:char|&str)>$'), split_once))

    def parse_int(ex_, p, m, a, func, fr):
        ty = m.group(1)
        from .mir import INT_BITS
        w = INT_BITS[ty]
        arr, off, ln = ex_.bytes_view(p.st, a[0])
        ok, val, defs = parse_unsigned(arr, off, ln, L, w)
        return [dict(cond=ok, value=res_ok((z3.Extract(w - 1, 0, val), ty)), oblig=[bound_ok(ln)], assume=defs),
                dict(cond=z3.Not(ok), value=res_err(Opaque('ParseIntError')), oblig=[bound_ok(ln)], assume=defs)]
    ex.overrides.append((re.compile(r'^core::str::<impl str>::parse::<(u8|u16|u32)>$'), parse_int))

    def str_eq(ex_, p, m, a, func, fr):
        from .models import bytes_equal
        a1, o1, l1 = ex_.bytes_view(p.st, a[0])
        a2, o2, l2 = ex_.bytes_view(p.st, a[1])
        e = bytes_equal(a1, o1, l1, a2, o2, l2)
        return one((e if m.group(1) == 'eq' else z3.Not(e), 'bool'))
    ex.overrides.append((re.compile(r'^<&?str as (?:std::cmp::)?PartialEq(?:<&?str>)?>::(eq|ne)$'), str_eq))


_PARSE_VAL = z3.Function('str_parse_value', BYTES, BV64, BV64, BV64)
_PARSE_OK = z3.Function('str_parse_ok', BYTES, BV64, BV64, z3.BitVecSort(8), z3.BoolSort())


def parse_unsigned(arr, off, ln, L, w):
    """(ok, value as BV64, definitions) of `s.parse::<uW>()` for the string arr[off..off+ln), ln <= L.
    The result is named by two functions of (array, offset, length) that are *defined* by the expansion below at every use, so that
    two parses of the same substring are equal by congruence without the solver comparing digit arithmetic."""
    ok, val = _parse_unsigned_def(arr, off, ln, L, w)
    fok = _PARSE_OK(arr, off, ln, bvv(w, 8))
    fval = _PARSE_VAL(arr, off, ln)
    return fok, fval, z3.And(fok == ok, z3.Implies(ok, fval == val))


def _parse_unsigned_def(arr, off, ln, L, w):
    plus = z3.And(z3.UGE(ln, bv64(1)), z3.Select(arr, off) == bvv(ord('+'), 8))
    start = z3.If(plus, bv64(1), bv64(0))
    val = bv64(0)
    alldig = T
    over = F
    limit = (1 << w) - 1
    for i in range(L):
        c = z3.Select(arr, off + bv64(i))
        inside = z3.And(z3.UGE(bv64(i), start), z3.ULT(bv64(i), ln))
        isdig = z3.And(z3.UGE(c, bvv(48, 8)), z3.ULE(c, bvv(57, 8)))
        alldig = z3.And(alldig, z3.Implies(inside, isdig))
        nv = val * bv64(10) + z3.ZeroExt(56, c - bvv(48, 8))
        # values stay far below 2^64 as long as we stop accumulating after an overflow of the target type
        over = z3.Or(over, z3.And(inside, z3.UGT(nv, bv64(limit))))
        val = z3.If(z3.And(inside, z3.Not(over)), nv, val)
    ok = z3.And(z3.UGT(ln, start), alldig, z3.Not(over))
    return ok, val
