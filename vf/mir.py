"""Parser for rustc `-Zunpretty=mir` text and a merged program index over several crates' dumps.

Only what the executor needs: function headers, locals, basic blocks as statement strings, named
constants and promoteds.  Statement strings are parsed lazily (and memoised) by the executor.
"""
import os
import re
import functools

INT_BITS = {'u8': 8, 'u16': 16, 'u32': 32, 'u64': 64, 'u128': 128, 'usize': 64,
            'i8': 8, 'i16': 16, 'i32': 32, 'i64': 64, 'i128': 128, 'isize': 64, 'char': 32}
SIGNED = {'i8', 'i16', 'i32', 'i64', 'i128', 'isize'}


class Fn:
    __slots__ = ('name', 'params', 'ret', 'locals', 'blocks', 'line', 'crate', 'impl', 'text_id', 'is_const', 'impl_trait_full', '_parsed')

    def __init__(self, name, params, ret, locals_, blocks):
        self.name, self.params, self.ret, self.locals, self.blocks = name, params, ret, locals_, blocks
        self.line = 0
        self.crate = ''
        self.impl = None      # (trait or None, self type last segment, module path) for impl methods
        self.is_const = False
        self.impl_trait_full = None
        self._parsed = None

    def __repr__(self):
        return 'Fn(%s::%s)' % (self.crate, self.name)


@functools.lru_cache(maxsize=None)
def split_top(s, sep=','):
    out = []
    depth = 0
    cur = []
    instr = False
    esc = False
    prev = ''
    for ch in s:
        if instr:
            cur.append(ch)
            if esc:
                esc = False
            elif ch == '\\':
                esc = True
            elif ch == '"':
                instr = False
            prev = ch
            continue
        if ch == '"':
            instr = True
            cur.append(ch)
            prev = ch
            continue
        if ch in '([{<':
            depth += 1
        elif ch in ')]}':
            depth -= 1
        elif ch == '>' and prev != '-' and prev != '=':
            depth -= 1
        if ch == sep and depth == 0:
            out.append(''.join(cur))
            cur = []
            prev = ch
            continue
        cur.append(ch)
        prev = ch
    tail = ''.join(cur)
    if tail.strip():
        out.append(tail)
    return tuple(out)


def balanced(s):
    d = 0
    for ch in s:
        if ch in '([':
            d += 1
        elif ch in ')]':
            d -= 1
            if d < 0:
                return False
    return d == 0


_hdr_fn = re.compile(r'^fn (.+?)\((.*)\) -> (.+?) \{$')
_hdr_const_lit = re.compile(r'^(?:const |static (?:mut )?)?(\S+): (.+?) = const (.+);$')
_hdr_const_body = re.compile(r'^(?:const |static (?:mut )?)?(\S.*?): (.+?) = \{$')
_let = re.compile(r'^let (?:mut )?(_\d+): (.+);$')
_bb = re.compile(r'^(bb\d+)(?: \(cleanup\))?: \{$')


def parse_body(body):
    locals_ = {}
    blocks = {}
    cur = None
    for l in body:
        s = l.strip()
        if cur is None:
            m = _let.match(s)
            if m:
                locals_[m.group(1)] = m.group(2)
                continue
        m = _bb.match(s)
        if m:
            cur = m.group(1)
            blocks[cur] = []
            continue
        if s == '}':
            cur = None
            continue
        if cur is not None and s and not s.startswith('//'):
            blocks[cur].append(s)
    return locals_, blocks


def parse_mir(text, crate):
    """returns (fns: list of Fn, consts: list of (name, ty, Fn|literal str, lineno, crate))"""
    lines = text.split('\n')
    fns = []
    consts = []
    i = 0
    n = len(lines)
    while i < n:
        l = lines[i]
        if not l or l[0] in ' /}':
            i += 1
            continue
        m1 = _hdr_fn.match(l) if l.startswith('fn ') else None
        m2 = None
        if m1 is None:
            hd = _split_const_header(l)
            if hd and hd[2] is not None:
                consts.append((hd[0], hd[1], hd[2], i, crate))
                i += 1
                continue
            if hd:
                m2 = _M2(hd[0], hd[1])
        if m1 or m2:
            j = i + 1
            body = []
            while j < n and lines[j] != '}':
                body.append(lines[j])
                j += 1
            locals_, blocks = parse_body(body)
            if m1:
                params = []
                for p in split_top(m1.group(2)):
                    p = p.strip()
                    if p:
                        pn, pt = p.split(': ', 1)
                        params.append((pn, pt))
                f = Fn(m1.group(1), params, m1.group(3), locals_, blocks)
                f.line = i
                f.crate = crate
                fns.append(f)
            else:
                f = Fn(m2.group(1), [], m2.group(2), locals_, blocks)
                f.line = i
                f.crate = crate
                f.is_const = True
                consts.append((m2.group(1), m2.group(2), f, i, crate))
            i = j + 1
            continue
        i += 1
    return fns, consts


class _M2:
    def __init__(self, name, ty):
        self.name, self.ty = name, ty

    def group(self, k):
        return self.name if k == 1 else self.ty


def _split_const_header(l):
    """`const NAME: TY = const V;` / `const NAME: TY = {` / `static NAME: TY = {` -> (name, ty, literal|None)"""
    if not (l.endswith(' = {') or (l.endswith(';') and ' = const ' in l)):
        return None
    body = l
    for pre in ('const ', 'static mut ', 'static '):
        if body.startswith(pre):
            body = body[len(pre):]
            break
    depth = 0
    cut = None
    for idx, ch in enumerate(body):
        if ch in '<([':
            depth += 1
        elif ch in ')]':
            depth -= 1
        elif ch == '>' and body[idx - 1] != '-':
            depth -= 1
        elif ch == ':' and depth == 0 and body.startswith(': ', idx) and not body.startswith('::', idx) and (idx == 0 or body[idx - 1] != ':'):
            cut = idx
            break
    if cut is None:
        return None
    name = body[:cut]
    rest = body[cut + 2:]
    if rest.endswith(' = {'):
        return name, rest[:-4], None
    k = rest.rfind(' = const ')
    if k < 0:
        return None
    return name, rest[:k], rest[k + 9:-1]


_impl_name = re.compile(r'^(.*?)<impl at (.+?):(\d+):\d+: \d+:\d+>::(.+)$')


def strip_generics(s):
    """remove ::<...> turbofish groups and <...> generic argument lists after identifiers"""
    out = []
    depth = 0
    i = 0
    while i < len(s):
        ch = s[i]
        if ch == '<' and depth == 0 and i > 0 and (s[i - 1].isalnum() or s[i - 1] == '_' or s[i - 1] == ':') and not s.startswith('<impl', i):
            # generic args (not a leading `<T as Trait>` qualifier)
            depth = 1
            # drop a preceding '::'
            if out[-2:] == [':', ':']:
                out = out[:-2]
            i += 1
            continue
        if depth > 0:
            if ch == '<':
                depth += 1
            elif ch == '>' and s[i - 1] != '-':
                depth -= 1
            i += 1
            continue
        out.append(ch)
        i += 1
    return ''.join(out)


class Program:
    """Merged view over MIR dumps of several crates (names are crate-relative in each dump)."""

    def __init__(self, src_root):
        self.src_root = src_root
        self.fns = []            # all Fn
        self.by_name = {}        # exact dump name -> [Fn]
        self.by_last = {}        # last path segment -> [Fn]
        self.consts = []
        self.consts_by_name = {}
        self.texts = {}          # crate -> full text
        self.src_cache = {}
        self.enum_variants = None
        self.crate_dirs = {}
        self.closures = {}

    def add_dump(self, crate, text, crate_dir):
        self.texts[crate] = text
        self.crate_dirs[crate] = crate_dir
        fns, consts = parse_mir(text, crate)
        for f in fns:
            self._index_fn(f)
        for c in consts:
            self.consts.append(c)
            self.consts_by_name.setdefault(c[0], []).append(c)
            last = c[0].split('::')[-1]
            if last != c[0]:
                self.consts_by_name.setdefault(last, []).append(c)

    def _src_line(self, path, ln):
        if path not in self.src_cache:
            try:
                self.src_cache[path] = open(os.path.join(self.src_root, path)).read().split('\n')
            except OSError:
                self.src_cache[path] = []
        src = self.src_cache[path]
        return src[ln - 1] if 0 < ln <= len(src) else ''

    def _index_fn(self, f):
        self.fns.append(f)
        self.by_name.setdefault(f.name, []).append(f)
        if '{closure#' in f.name and f.params:
            cm = re.search(r'\{closure@[^}]*\}', f.params[0][1])
            if cm:
                self.closures[(f.crate, cm.group(0))] = f
        m = _impl_name.match(f.name)
        if m:
            modpath, path, ln, rest = m.group(1), m.group(2), int(m.group(3)), m.group(4)
            line = self._src_line(path, ln)
            # the impl header may span lines; join a few
            hdr = line
            k = ln
            while '{' not in hdr and k < ln + 6:
                k += 1
                hdr += ' ' + self._src_line(path, k).strip()
            hdr = hdr.split('{')[0].strip()
            hdr = re.sub(r'\bwhere\b.*$', '', hdr).strip()
            mm = re.match(r'^(?:unsafe\s+)?impl(?:\s*<.*?>)?\s+(.+?)\s+for\s+(.+)$', hdr)
            if mm:
                trait, ty = mm.group(1).strip(), mm.group(2).strip()
            else:
                mm = re.match(r'^(?:unsafe\s+)?impl(?:\s*<.*?>)?\s+(.+)$', hdr)
                trait, ty = None, (mm.group(1).strip() if mm else '?')
            ty_last = strip_generics(ty.replace('&mut ', '').replace('&', '').replace("'_ ", '')).split('::')[-1].strip()
            if '$' in ty or ty_last == '?':
                # macro-generated impl: take the Self type from the signature (receiver, else return type)
                sig = f.params[0][1] if (f.params and re.match(r'^&?(mut )?[A-Z]', f.params[0][1].replace("'_ ", ''))) else f.ret
                ty_last = strip_generics(sig.replace('&mut ', '').replace('&', '').replace("'_ ", '')).split('::')[-1].strip()
            trait_last = strip_generics(trait).split('::')[-1].strip() if trait else None
            f.impl = (trait_last, ty_last, modpath.rstrip(':'), rest)
            f.impl_trait_full = re.sub(r'(\w+::)+', '', trait).replace(' ', '') if trait else None
            meth = rest.split('::')[0]
            self.by_last.setdefault(meth, []).append(f)
        else:
            self.by_last.setdefault(f.name.split('::')[-1], []).append(f)

    # ---- resolution of a call-site callee string to a repo function ----
    def resolve(self, func, from_crate=None):
        """returns Fn or None. `func` is the callee text at a MIR call site."""
        key = (func, from_crate)
        if not hasattr(self, '_rcache'):
            self._rcache = {}
        if key in self._rcache:
            return self._rcache[key]
        r = self._resolve(func, from_crate)
        self._rcache[key] = r
        return r

    def _resolve(self, func, from_crate):
        f0 = func.strip()
        # closures:  path::func::{closure#0}
        trait = None
        ty = None
        m = re.match(r'^<(.+) as (.+?)>::(\w+)(?:::<.*>)?$', f0)
        if m and balanced(m.group(1)):
            ty_txt, trait_txt, meth = m.group(1), m.group(2), m.group(3)
            ty = strip_generics(ty_txt.replace('&mut ', '').replace('&', '')).split('::')[-1].strip()
            trait = strip_generics(trait_txt).split('::')[-1].strip()
            cands = [f for f in self.by_last.get(meth, []) if f.impl and f.impl[0] == trait and f.impl[1] == ty and f.impl[3] == meth]
            if len(cands) > 1:
                want = re.sub(r'(\w+::)+', '', trait_txt).replace(' ', '')
                exact = [f for f in cands if f.impl_trait_full == want]
                if exact:
                    cands = exact
            cands = self._prefer(cands, from_crate, strip_generics(ty_txt))
            return cands[0] if cands else None
        g = strip_generics(f0)
        if g.startswith('octo_squirrel::'):
            g2 = g[len('octo_squirrel::'):]
            pref_crate = 'octo-squirrel'
        else:
            g2 = g
            pref_crate = from_crate
        segs = g2.split('::')
        meth = segs[-1]
        if meth.startswith('{closure#'):
            # closure of a repo fn: find by exact-suffix match on by_name
            for name, fl in self.by_name.items():
                if strip_generics(name).endswith(g2) or g2.endswith(strip_generics(name)):
                    c = self._prefer(fl, pref_crate, None)
                    if c:
                        return c[0]
            # closure inside an impl method: Type::method::{closure#0}
            if len(segs) >= 3:
                tyl, m2 = segs[-3], segs[-2]
                for f in self.by_last.get(m2, []):
                    if f.impl and f.impl[1] == tyl and f.impl[3] == m2 + '::' + meth:
                        return f
            return None
        if len(segs) >= 2 and segs[-2][:1].isupper():
            tyl = segs[-2]
            mc = [f for f in self.by_last.get(meth, []) if f.impl and f.impl[1] == tyl and f.impl[3] == meth]
            if len(mc) > 1:
                inh = [f for f in mc if f.impl[0] is None]
                if inh:
                    mc = inh
            mc = self._prefer(mc, pref_crate, '::'.join(segs[:-1]))
            if mc:
                return mc[0]
            # a method of a type that is not in the dumps: not a repo function
            if not any(f.impl is None and (f.name == g2 or f.name.endswith('::' + g2)) for f in self.by_last.get(meth, [])):
                return None
        # free function: exact or suffix match on the dump name
        cands = []
        for f in self.by_last.get(meth, []):
            if f.impl is None:
                n = f.name
                if n == g2 or n.endswith('::' + g2) or g2.endswith('::' + n):
                    cands.append(f)
        if cands:
            cands = self._prefer(cands, pref_crate, None)
            # choose longest name match
            cands.sort(key=lambda f: -len(os.path.commonprefix([f.name[::-1], g2[::-1]])))
            return cands[0]
        # inherent/trait method by Type::method
        if len(segs) >= 2:
            tyl = segs[-2]
            cands = [f for f in self.by_last.get(meth, []) if f.impl and f.impl[1] == tyl and f.impl[3] == meth]
            if len(cands) > 1:
                inh = [f for f in cands if f.impl[0] is None]
                if inh:
                    cands = inh
            cands = self._prefer(cands, pref_crate, '::'.join(segs[:-1]))
            if cands:
                return cands[0]
        return None

    def _prefer(self, cands, crate, type_path):
        if len(cands) <= 1:
            return cands
        if type_path and '::' in type_path:
            mod = '::'.join(type_path.split('::')[:-1])
            mod = re.sub(r'^(octo_squirrel|crate)::', '', mod)
            c2 = [f for f in cands if f.impl and (f.impl[2] == mod or f.impl[2].endswith('::' + mod) or mod.endswith('::' + f.impl[2]) or mod.endswith(f.impl[2]))]
            if c2:
                cands = c2
        if crate:
            c2 = [f for f in cands if f.crate == crate]
            if c2:
                cands = c2
        return cands

    def find_fn(self, pattern, crate=None):
        """driver helper: unique function whose dump name matches the regex"""
        rx = re.compile(pattern)
        c = [f for f in self.fns if rx.search(f.name) and (crate is None or f.crate == crate)]
        if len(c) != 1:
            raise KeyError('find_fn(%r): %d candidates: %s' % (pattern, len(c), [f.name for f in c][:8]))
        return c[0]

    def find_impl_fn(self, ty, meth, trait=None, crate=None, file_part=None):
        c = [f for f in self.fns if f.impl and f.impl[1] == ty and f.impl[3] == meth and f.impl[0] == trait and (crate is None or f.crate == crate)
             and (file_part is None or file_part in f.name)]
        if len(c) > 1 and len(set(f.name for f in c)) == 1 and len(set(f.crate for f in c)) == 1 and len(set(f.ret for f in c)) == 1:
            # a `const fn` is printed twice (const-evaluation and runtime MIR); take the runtime one (printed last)
            return c[-1]
        if len(c) != 1:
            raise KeyError('find_impl_fn(%s,%s,%s): %d candidates: %s' % (ty, meth, trait, len(c), [f.name for f in c][:8]))
        return c[0]

    # ---- enums: declaration order / explicit discriminants from the source ----
    def enum_info(self, ename):
        if self.enum_variants is None:
            self.enum_variants = {}
            import glob
            for f in glob.glob(self.src_root + '/octo-squirrel*/src/**/*.rs', recursive=True):
                txt = open(f).read()
                for m in re.finditer(r'enum (\w+)(?:<[^>{]*>)?\s*\{(.*?)\n\s*\}', txt, re.S):
                    body = m.group(2)
                    names = []
                    nxt = 0
                    for vm in re.finditer(r'^\s*(?:#\[[^\n]*\]\s*)*([A-Z]\w*)\s*(\([^)]*\)|\{[^}]*\})?\s*(?:=\s*(\d+))?\s*,?\s*$', body, re.M):
                        if vm.group(3) is not None:
                            nxt = int(vm.group(3))
                        names.append((vm.group(1), nxt))
                        nxt += 1
                    self.enum_variants.setdefault(m.group(1), []).append((f, names))
        return self.enum_variants.get(ename)
