"""C10 - stale, replayed, mis-typed or unbound handshakes are rejected.

Engine M with the clock as a symbolic instant (seconds and nanoseconds) and the AEAD opens as havoc contracts whose plaintexts are
the symbolic header fields: the real decoders accept only if the type byte is the expected one, |timestamp - clock| <= 30 s (120 s
for VMess auth ids), the echoed request salt is the client's own, the salt cache is consulted before opening and the salt recorded on
acceptance, and salts are remembered for at least as long as their timestamp stays acceptable.
"""
import re
import z3

from ..values import *  # noqa
from ..engine import Inconclusive
from ..models import one, U
from .common import *  # noqa
from . import decoders
from .. import crypto

PROPERTY_ID = 'C10'
LEVEL = 'proof'
BOUNDS = {'clock': 'every instant with |seconds| < 2^62 and every sub-second value', 'timestamps': 'all 2^64', 'type bytes': 'all 256', 'salts': 'all values',
          'histories': 'salt cache as a set: one earlier acceptance + one presentation (sequential); concurrency and LRU internals outside'}
TRUSTED_BASE = ['rustc MIR printer', 'vf.engine', 'vf.timemodel (std::time contracts)', 'vf.crypto havoc contracts', 'z3']
ASSUMPTIONS = ['the system clock is read as one instant per decode call', 'salt cache (lru_time_cache behind a Mutex) is a set contract; try_lock contention is outside (C09)']
EXPLANATION = 'acceptance predicates of the real decoders compared with the specification for all clock values and header fields'


def absdiff_le(a_u64, b_i64, bound):
    """|a - b| <= bound over the integers, a unsigned 64, b signed 64"""
    a = z3.ZeroExt(2, a_u64)
    b = z3.SignExt(2, b_i64)
    d = a - b
    return z3.And(d <= bound, d >= -bound)


def job_validate_timestamp(ctx):
    prog = ctx.prog
    ex = ctx.new_exec(unroll=4)
    fn = prog.find_fn(r'(^|::)validate_timestamp$')
    ts = z3.BitVec('ts', 64)
    ex.inputs = {'ts': (ts, 'u64')}
    paths = ex.run(fn, [(ts, 'u64')], [])
    ctx.absorb(ex, paths)
    nok = nerr = 0

    def rp(m):
        delta = m.get('ts', 0) - m.get('#clock_secs', 0)
        if abs(delta) > 10 ** 6:
            delta = 10 ** 6 if delta > 0 else -10 ** 6
        return {'entry': 'validate_timestamp', 'delta': delta, 'nanos': m.get('#clock_nanos', 0)}
    for p in paths:
        if p.status != 'return':
            continue
        secs = ex.clock['secs']
        ok = p.ret.disc == 0
        # the clock may be before the epoch (now() fails): then nothing is accepted
        spec = z3.And(secs >= 0, absdiff_le(ts, secs, 30))
        ctx.prove(ex, p, ok == spec, 'validate_timestamp: accept decision differs from |now - timestamp| <= 30 s', fn.name + '@return', replay=rp)
        nok += ex.check(p.pcs + [ok])[0]
        nerr += ex.check(p.pcs + [z3.Not(ok)])[0]
    ctx.out.vacuity = [('accepting path', nok > 0), ('refusing path', nerr > 0)]
    ctx.out.samples.append({'obligation': 'Ok <=> clock >= epoch /\\ |floor(clock) - ts| <= 30, for all clock instants and timestamps'})


def job_matching(ctx):
    prog = ctx.prog
    ex = ctx.new_exec(unroll=6)
    crypto.install(ex)
    install_repo_contracts(ex)
    ecb_contract(ex)
    fn = prog.find_fn(r'(^|::)matching$')
    authid = symarr('authid', 16)
    keys = List((symarr('key0', 16), symarr('key1', 16)))
    ex.inputs = {'authid': authid}
    paths = ex.run(fn, [Ref('#authid'), Ref('#keys')], [], st0={'#authid': authid, '#keys': keys})
    ctx.absorb(ex, paths, replay_of=lambda v: {'entry': 'vmess_matching', 'ecb': (v.model or {}).get('#ecb'), 'clock': (v.model or {}).get('#clock_secs')})
    nacc = 0
    for p in paths:
        if p.status != 'return':
            continue
        r = p.ret
        sat, _ = ex.check(p.pcs + [r.disc == 0, r.payloads['Ok'][0].disc == 1]) if 'Ok' in r.payloads else (False, None)
        if not sat:
            continue
        nacc += 1
        # the block decrypted for the key that matched is the last ECB output on the path
        blk = p.ghost['ecb'][-1][1]
        t = z3.Concat(*[z3.Select(blk, bv64(i)) for i in range(8)])
        secs = ex.clock['secs']
        d = z3.SignExt(2, t) - z3.SignExt(2, secs)
        ctx.prove(ex, p, z3.Implies(z3.And(r.disc == 0, r.payloads['Ok'][0].disc == 1), z3.And(d <= 120, d >= -120)),
                  'VMess auth id accepted although its timestamp is more than 120 s from the clock', fn.name + '@return',
                  replay=lambda m: {'entry': 'vmess_matching', 'ecb': m.get('#ecb'), 'clock': m.get('#clock_secs')})
    ctx.out.vacuity = [('a path accepts an auth id', nacc > 0)]
    ctx.out.samples.append({'obligation': 'matching() = Some(key) => |t - floor(clock)| <= 120 for the decrypted timestamp t'})


def job_mode_bytes(ctx):
    prog = ctx.prog
    ex = ctx.new_exec(unroll=4)
    to_u8 = prog.find_impl_fn('Mode', 'to_u8', file_part='protocol/shadowsocks.rs')
    exp = prog.find_impl_fn('Mode', 'expect_u8', file_part='protocol/shadowsocks.rs')
    vals = {}
    for i, name in enumerate(['Client', 'Server']):
        for f, tag in ((to_u8, 'to'), (exp, 'expect')):
            ps = [p for p in ex.run(f, [Ref('#m')], [], st0={'#m': Enum(bv64(i), {}, 'Mode')}) if p.status == 'return']
            ctx.absorb(ex, ps)
            vals[(name, tag)] = (ps[0], ps[0].ret[0]) if len(ps) == 1 else None
    def rp(m):
        return {'entry': 'mode_bytes'}
    p, v = vals[('Client', 'to')]
    ctx.prove(ex, p, v == 0, 'Mode::Client.to_u8() must be 0 (request)', to_u8.name, replay=rp)
    p, v = vals[('Server', 'to')]
    ctx.prove(ex, p, v == 1, 'Mode::Server.to_u8() must be 1 (response)', to_u8.name, replay=rp)
    p, v = vals[('Client', 'expect')]
    ctx.prove(ex, p, v == 1, 'a client must expect type 1 (server response)', exp.name, replay=rp)
    p, v = vals[('Server', 'expect')]
    ctx.prove(ex, p, v == 0, 'a server must expect type 0 (client request)', exp.name, replay=rp)
    ctx.out.vacuity = [('four evaluations', len(vals) == 4)]
    ctx.out.samples.append({'obligation': 'to_u8/expect_u8 table'})


def hdr_byte(opens, k, i):
    return z3.Select(opens[k][1], bv64(i))


def hdr_u64(opens, k, i):
    return z3.Concat(*[z3.Select(opens[k][1], bv64(i + j)) for j in range(8)])


def make_tcp_job(case, N, mode):
    def job(ctx):
        ex = case.new_exec(ctx)
        log = []

        def check_nonce(ex_, p, m, a, fu, fr):
            arr, off, ln = ex_.bytes_view(p.st, a[1])
            seen = fresh('salt_seen', z3.BoolSort())
            return one((seen, 'bool'), apply=lambda q: q.ghost.setdefault('cache', []).append(('check', arr, off, ln, seen, len(q.ghost.get('opens', [])))))

        def set_nonce(ex_, p, m, a, fu, fr):
            v = ex_.deref_all(p.st, a[1]) if isinstance(a[1], Ref) else a[1]
            return one(U(), apply=lambda q: q.ghost.setdefault('cache', []).append(('set', v)))
        ex.overrides.insert(0, (re.compile(r'Context::<.*>::check_nonce$'), check_nonce))
        ex.overrides.insert(0, (re.compile(r'Context::<.*>::set_nonce$'), set_nonce))
        paths = ex.run(case.fn, case.args, case.pcs, st0=dict(case.st0))
        ctx.absorb(ex, paths, replay_of=lambda v: case.replay(v.model))
        nacc = 0
        src = case.inputs['src']
        own_salt = case.st0['#sess'].fields[1].fields[0]
        expect = 0 if mode == 'Server' else 1

        def rp(m):
            s = case.replay(m)
            if s:
                s['expect'] = 'accept'
            return s
        for p in paths:
            if p.status != 'return' or 'Ok' not in p.ret.payloads:
                continue
            item = p.ret.payloads['Ok'][0]
            acc = z3.And(p.ret.disc == 0, item.disc == 1)
            if not ex.check(p.pcs + [acc])[0]:
                continue
            nacc += 1
            opens = [o for o in p.ghost.get('opens', []) if o[0] == 'ok']
            site = case.fn.name + '@accept'
            secs = ex.clock.get('secs')
            ctx.prove(ex, p, z3.Implies(acc, hdr_byte(opens, 0, 0) == expect), 'accepted a header whose type byte is not the expected one', site, replay=rp)
            ctx.prove(ex, p, z3.Implies(acc, z3.And(secs >= 0, absdiff_le(hdr_u64(opens, 0, 1), secs, 30))), 'accepted a header whose timestamp is more than 30 s from the clock', site, replay=rp)
            if mode == 'Client':
                echo_ok = z3.And(*[hdr_byte(opens, 0, 9 + i) == z3.Select(own_salt.arr, bv64(i)) for i in range(N)])
                ctx.prove(ex, p, z3.Implies(acc, echo_ok), 'client accepted a response whose request-salt echo is not its own request salt', site, replay=rp)
            cache = p.ghost.get('cache', [])
            checks = [c for c in cache if c[0] == 'check']
            sets = [c for c in cache if c[0] == 'set']
            # consulted before the first open, on the salt at the front of the input, and found unseen
            ok_check = F
            if checks:
                c = checks[0]
                ok_check = z3.And(T if c[5] == 0 else F, c[3] == N, z3.Not(c[4]), *[z3.Select(c[1], c[2] + bv64(i)) == z3.Select(src.arr, src.off + bv64(i)) for i in range(N)])
            ctx.prove(ex, p, z3.Implies(acc, ok_check), 'accepted without consulting the salt cache (before opening, on the received salt, unseen)', site, replay=rp)
            ok_set = F
            if sets and isinstance(sets[-1][1], Arr):
                ok_set = z3.And(*[z3.Select(sets[-1][1].arr, bv64(i)) == z3.Select(src.arr, src.off + bv64(i)) for i in range(N)])
            ctx.prove(ex, p, z3.Implies(acc, ok_set), 'accepted without recording the salt in the replay cache', site, replay=rp)
        ctx.out.vacuity = [('some path accepts a header', nacc > 0)]
        ctx.out.samples.append({'decoder': case.name, 'accepting_paths': nacc})
    return job


def make_udp_job(case, kind, mode):
    def job(ctx):
        ex, paths = case.run(ctx)
        ctx.absorb(ex, paths, replay_of=lambda v: case.replay(v.model))
        off = 16 if 'ChaCha' in kind else 0
        expect = 0 if mode == 'Server' else 1
        nacc = 0

        def rp(m):
            s = case.replay(m)
            if s:
                s['expect'] = 'accept'
            return s
        for p in paths:
            if p.status != 'return' or 'Ok' not in p.ret.payloads:
                continue
            item = p.ret.payloads['Ok'][0]
            acc = z3.And(p.ret.disc == 0, item.disc == 1)
            if not ex.check(p.pcs + [acc])[0]:
                continue
            nacc += 1
            opens = [o for o in p.ghost.get('opens', []) if o[0] == 'ok']
            secs = ex.clock.get('secs')
            site = case.fn.name + '@accept'
            ctx.prove(ex, p, z3.Implies(acc, hdr_byte(opens, -1, off) == expect), 'accepted a datagram whose type byte is not the expected one', site, replay=rp)
            ctx.prove(ex, p, z3.Implies(acc, z3.And(secs >= 0, absdiff_le(hdr_u64(opens, -1, off + 1), secs, 30))), 'accepted a datagram whose timestamp is more than 30 s from the clock', site, replay=rp)
        ctx.out.vacuity = [('some path accepts a datagram', nacc > 0)]
        ctx.out.samples.append({'decoder': case.name, 'accepting_paths': nacc})
    return job


def job_cache_retention(ctx):
    """Context::new: the expiry handed to the LRU must cover the 60 s during which a timestamp can stay acceptable (SIP022: 60 s)"""
    prog = ctx.prog
    for N in (16, 32):
        ex = ctx.new_exec(unroll=4)
        ex.const_generics = {'N': N}
        seen = []

        def lru(ex_, p, m, a, fu, fr):
            seen.append(a[0])
            return one(Opaque('lru'))
        ex.overrides.append((re.compile(r'LruCache::<.*>::with_expiry_duration_and_capacity$'), lru))
        ex.overrides.append((re.compile(r'Mutex::<.*>::new$'), lambda ex_, p, m, a, fu, fr: one(Opaque('mutex'))))
        fn = prog.find_impl_fn('Context', 'new', file_part='tcp.rs')
        paths = ex.run(fn, [symarr('key', N), List(()), cipher_kind('Aead2022Blake3Aes128Gcm'), opt_none()], [])
        ctx.absorb(ex, paths)
        for p in paths:
            if p.status == 'return' and seen:
                d = seen[-1]
                secs = d.fields[0][0]
                ctx.prove(ex, p, z3.UGE(secs, 60), 'accepted salts are forgotten before their timestamp stops being acceptable (retention < 60 s)', fn.name + '@LruCache',
                          replay=lambda m: {'entry': 'salt_retention'})
        ctx.out.vacuity.append(('Context::<%d>::new builds the cache' % N, bool(seen)))
    ctx.out.samples.append({'obligation': 'LruCache expiry >= 2 * 30 s'})


def make_vmess_client_job(case):
    def job(ctx):
        ex, paths = case.run(ctx)
        ctx.absorb(ex, paths, replay_of=lambda v: case.replay(v.model))
        resp = case.st0['#self'].fields[1].fields[4][0]
        nacc = 0

        def rp(m):
            s = case.replay(m)
            if s:
                s['expect'] = 'accept'
                s.setdefault('vars', {})['resp_hdr_match'] = False
            return s
        for p in paths:
            if p.status not in ('return', 'cut'):
                continue
            codec = p.st['#self']
            bd = codec.fields[3]
            if not isinstance(bd, Enum) or not ex.check(p.pcs + [bd.disc == 1])[0]:
                continue
            nacc += 1
            opens = [o for o in p.ghost.get('opens', []) if o[0] == 'ok']
            ctx.prove(ex, p, z3.Implies(bd.disc == 1, hdr_byte(opens, 1, 0) == resp), 'VMess client accepted a response header whose authentication byte differs from the one it sent',
                      case.fn.name + '@accept', replay=rp)
        ctx.out.vacuity = [('some path accepts a response header', nacc > 0)]
        ctx.out.samples.append({'decoder': case.name, 'accepting_paths': nacc})
    return job


def jobs(prog, tier):
    js = [('validate_timestamp', job_validate_timestamp, 300), ('vmess::auth_id::matching', job_matching, 300), ('Mode::to_u8/expect_u8', job_mode_bytes, 120),
          ('salt cache retention', job_cache_retention, 120)]
    tcp = [(N, k, m, False, False) for (N, k) in ((16, 'Aead2022Blake3Aes128Gcm'), (32, 'Aead2022Blake3Aes256Gcm'), (32, 'Aead2022Blake3ChaCha20Poly1305')) for m in ('Server', 'Client')]
    for case, cfg in zip(decoders.ss_tcp_cases(prog, tcp), tcp):
        js.append(('accept:' + case.name, make_tcp_job(case, cfg[0], cfg[2]), 600))
    udp = [(N, k, m, False) for (N, k) in ((16, 'Aead2022Blake3Aes128Gcm'), (32, 'Aead2022Blake3Aes256Gcm'), (32, 'Aead2022Blake3ChaCha20Poly1305'), (32, 'Aead2022Blake3ChaCha8Poly1305')) for m in ('Server', 'Client')]
    for case, cfg in zip(decoders.ss_udp_cases(prog, udp), udp):
        js.append(('accept:' + case.name, make_udp_job(case, cfg[1], cfg[2]), 600))
    from .vmess_cases import vmess_cases
    for case in vmess_cases(prog, tier):
        if 'ClientAEADCodec' in case.name:
            js.append(('accept:' + case.name, make_vmess_client_job(case), 600))
    return js
