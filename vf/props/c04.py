"""C04 - decoding is independent of how the byte stream is segmented, and never stalls.

Engine M with the ideal-AEAD ghost log in mode `exact`: the input is a GENUINE stream, laid out from the protocol specifications
(props/wire.py) with symbolic sizes and contents, and the real decoder is driven the way tokio-util's FramedRead drives it (decode
until Ok(None), then read) while the transport delivers the stream in 1, 2 or 3 consecutive non-empty segments whose cut points
are symbolic - every cut of every frame length at once - and then goes quiet (no EOF).  Oracle: no error, and when the transport
goes quiet everything the sender wrote has been released, in order (no loss, no stall, same result for every segmentation).
The WebSocket adapter is repository code: the MIR of WebSocketFramed::poll_next is executed with the inner stream and the decoder
as contracts; it may return Pending only if the inner stream returned Pending in that call (otherwise no waker is registered).
"""
import re
import z3

from ..values import *  # noqa
from ..engine import Inconclusive
from ..models import one, U
from .common import *  # noqa
from .. import crypto, ideal
from . import wire
from . import c05

PROPERTY_ID = 'C04'
LEVEL = 'proof'
BOUNDS = {'stream': 'genuine stream of K application chunks (quick 2, thorough 3) of arbitrary content, each 1..65535 bytes, plus the protocol handshake',
          'segmentation': '1, 2 (quick) and 3 (thorough) consecutive non-empty segments with symbolic cut points (all positions at once); more cuts are outside',
          'loops': 'decode calls per run bounded (reaching the bound is inconclusive)'}
TRUSTED_BASE = ['rustc MIR printer', 'vf.engine', 'vf.ideal (a genuine ciphertext opens under the right key and nonce, nothing else does)', 'props/wire.py reference layouts (written from the specifications)',
                'tokio-util FramedRead loop as documented (modelled by the driver, replayed natively on the real FramedRead)', 'z3']
ASSUMPTIONS = ['Shadowsocks 2022: salt and fixed-length header arrive in the first read (protocol requirement; that boundary is exempt)',
               'TLS / QUIC / WebSocket read boundaries surface as segment boundaries of the byte stream']
EXPLANATION = 'for every cut position: released bytes == sender plaintext and no Err (unsat of the negation per path)'


def make_ss_tcp_job(N, kind, mode, tier, nseg):
    legacy = not kind.startswith('Aead2022')

    def job(ctx):
        from . import decoders
        K = c05.K_of(tier) - (0 if legacy else 1)
        case = decoders.ss_tcp_cases(ctx.prog, [(N, kind, mode, False, False)])[0]
        ex = c05.base_exec(ctx, N, 2 * K + 4, mode='exact')
        case.setup(ex)
        ex.cut_loops = []
        # the salt cache is a real set here: the decoder may look the salt up several times while it waits for the header
        cache = []

        def check_nonce(ex_, p, m, a, fu, fr):
            arr, off, ln = ex_.bytes_view(p.st, a[1])
            seen = F
            for (sa, so, sl) in p.ghost.get('salts', []):
                seen = z3.Or(seen, z3.And(*[z3.Select(sa, so + bv64(i)) == z3.Select(arr, off + bv64(i)) for i in range(N)]))
            return one((z3.simplify(seen), 'bool'))

        def set_nonce(ex_, p, m, a, fu, fr):
            v = ex_.deref_all(p.st, a[1]) if isinstance(a[1], Ref) else a[1]
            return one(U(), apply=lambda q: q.ghost.setdefault('salts', []).append((v.arr, bv64(0), bv64(N))))
        ex.overrides.insert(0, (re.compile(r'Context::<.*>::check_nonce$'), check_nonce))
        ex.overrides.insert(0, (re.compile(r'Context::<.*>::set_nonce$'), set_nonce))
        key_arr = case.st0['#ctx'].fields[0].arr
        own_salt = case.st0['#sess'].fields[1].fields[0].arr
        req = wire.ss_tcp_stream(legacy, key_arr, N, 'request', K, 'req')
        resp = wire.ss_tcp_stream(legacy, key_arr, N, 'response', K, 'resp', request_salt=req.fields['salt'])
        genuine = resp if mode == 'Client' else req
        pcs = list(genuine.constraints) + list(genuine.layout)
        if mode == 'Client':
            pcs += [z3.Select(own_salt, bv64(i)) == z3.Select(req.fields['salt'], bv64(i)) for i in range(N)]
        secs = z3.BitVec('clock_secs', 64)
        if not legacy:
            # a fresh handshake: the receiver's clock is within 30 s of the timestamp
            from .c10 import absdiff_le
            pcs += [secs >= 0, absdiff_le(genuine.fields['ts'], secs, 30)]
        src = genuine.realize()
        st0 = dict(case.st0)
        st0['#src'] = src
        ex.inputs = {'src': src, 'own_salt': Arr(own_salt, 'u8', N)}
        ex.inputs.update(c05.payload_inputs('chunk', genuine))
        if not legacy and nseg > 1:
            # SIP022: salt + fixed-length header arrive in the first read
            first = genuine.boundaries()[1]
            pcs.append(z3.UGE(z3.BitVec('cut1', 64), first))
        rp = c05.framed_spec('ss_tcp', {'N': N, 'kind': kind, 'mode': mode}, 'all_delivered', [['chunk%d' % i for i in range(len(genuine.payloads))]], {'own_salt': 'own_salt'})
        results = c05.drive(ex, case.fn, case.args, st0, pcs, {'sealed': list(genuine.entries)}, 3 * nseg + 2 * K + 4, c05.opt_item, nseg=nseg)
        site = case.fn.name + '@framed'
        nquiet = 0
        for p, rel, end in results:
            ctx.absorb(ex, [p])
            if end == 'calls':
                ctx.out.inconclusive.append('decode call bound reached')
                continue
            if end == 'err':
                ctx.prove(ex, p, F, 'a valid stream is refused with an error in some segmentation', site, replay=rp)
                continue
            if end != 'quiet':
                continue
            nquiet += 1
            prove_all(ctx, ex, p, rel, genuine.payloads, 'a valid stream has completely arrived but not all of its content is released (stall or loss) in some segmentation', site, rp)
        ctx.out.vacuity = [('some run ends with the transport quiet', nquiet > 0)]
        ctx.out.samples.append({'decoder': case.name, 'segments': nseg, 'chunks': len(genuine.payloads), 'runs': len(results)})
    return job


def prove_all(ctx, ex, p, rel, chunks, msg, site, rp):
    """released pieces == the sender's chunks, in order"""
    pcs_ = [pc for pc in c05.pieces_of(ex, p, rel)]
    # zero-length pieces may be dropped by the decoder (an empty item is not an item)
    if len(pcs_) == len(chunks) and all(z3.eq(pa, ca) for (pa, _o, _l), (ca, _co, _cl) in zip(pcs_, chunks)):
        cond = z3.And(*[z3.And(po == co, pl == cl) for (_pa, po, pl), (_ca, co, cl) in zip(pcs_, chunks)])
        return ctx.prove(ex, p, cond, msg, site, replay=rp)
    arr, total = c05.concat_view(ex, p, rel)
    want = c05.sum_len(chunks)
    j = fresh('j', BV64)
    exp = bvv(0, 8)
    base = bv64(0)
    for (a, o, ln) in chunks:
        exp = z3.If(z3.And(z3.UGE(j, base), z3.ULT(j - base, ln)), z3.Select(a, o + (j - base)), exp)
        base = base + ln
    return ctx.prove(ex, p, z3.And(total == want, z3.Implies(z3.ULT(j, want), z3.Select(arr, j) == exp)), msg, site, replay=rp)


def jobs(prog, tier):
    js = []
    segs = (1, 2, 3) if tier == 'thorough' else (1, 2)
    for (N, kind) in ((16, 'Aes128Gcm'), (32, 'ChaCha20Poly1305'), (16, 'Aead2022Blake3Aes128Gcm'), (32, 'Aead2022Blake3Aes256Gcm'), (32, 'Aead2022Blake3ChaCha20Poly1305')):
        for mode in ('Server', 'Client'):
            for nseg in segs:
                js.append(('ss::tcp::decode[N=%d,%s,%s,segments=%d]' % (N, kind, mode, nseg), make_ss_tcp_job(N, kind, mode, tier, nseg), 1500))
    for (chunk, padding) in c05.VMESS_COMBOS:
        for side in ('server', 'client'):
            sec = 'Aes128Gcm' if (chunk, side) != ('Auth', 'client') else 'Chacha20Poly1305'
            for nseg in segs:
                if tier != 'thorough' and (chunk, padding) == ('Shake', 'Shake') and nseg > 1:
                    continue    # masked size + padding with symbolic cuts: 11 min per job, thorough tier only
                js.append(('vmess::decode_payload[%s,%s,%s,%s,segments=%d]' % (sec, chunk, padding, side, nseg), make_vmess_body_job(sec, chunk, padding, side, tier, nseg), 3000))
    for (chunk, padding) in (('Shake', 'Shake'), ('Auth', 'Shake'), ('Plain', 'Empty')):
        for nseg in segs:
            if tier != 'thorough' and (chunk, padding) == ('Shake', 'Shake') and nseg > 1:
                continue
            js.append(('vmess::decode_packet[Aes128Gcm,%s,%s,server,segments=%d]' % (chunk, padding, nseg), make_vmess_body_job('Aes128Gcm', chunk, padding, 'server', tier, nseg, packet=True), 1500))
    return js


def make_vmess_body_job(security, chunk, padding, side, tier, nseg, packet=False):
    def job(ctx):
        K = c05.K_of(tier)
        ex, p0, keys = c05.vmess_setup(ctx, security, chunk, padding, side, 'exact', 3 * K + 6)
        req, resp = c05.vmess_streams(security, chunk, padding, keys, K)
        genuine = req if side == 'server' else resp
        src = genuine.realize()
        fn = ctx.prog.find_impl_fn('AEADBodyCodec', 'decode_packet' if packet else 'decode_payload')
        ex.inputs = {'src': src}
        ex.inputs.update(c05.payload_inputs('chunk', genuine))
        for k in range(genuine.draws + 2):
            ex.inputs['shake%d' % k] = (wire.shake_draw(k), 'u16')
        pcs = genuine.constraints + genuine.layout
        rp = c05.framed_spec('vmess_body', {'security': security, 'chunk': chunk, 'padding': padding, 'side': side, 'packet': packet}, 'all_delivered',
                             [['chunk%d' % i for i in range(K)]])
        results = c05.drive(ex, fn, [Ref('#codec'), Ref('#src'), Ref('#sess')], {'#src': src}, pcs, {'sealed': list(genuine.entries)}, 3 * nseg + 3 * K + 4, c05.opt_item, nseg=nseg, start=p0)
        site = fn.name + '@framed'
        nquiet = 0
        for p, rel, end in results:
            ctx.absorb(ex, [p])
            if end == 'calls':
                ctx.out.inconclusive.append('decode call bound reached')
            elif end == 'err':
                ctx.prove(ex, p, F, 'a valid stream is refused with an error in some segmentation', site, replay=rp)
            elif end == 'quiet':
                nquiet += 1
                if packet:
                    # datagrams: one item per chunk, never merged or split
                    ctx.prove(ex, p, T if len(rel) == K else F, 'datagram boundaries are not preserved (%d items for %d datagrams)' % (len(rel), K), site, replay=rp)
                prove_all(ctx, ex, p, rel, genuine.payloads, 'a valid stream has completely arrived but not all of its content is released (stall or loss) in some segmentation', site, rp)
        ctx.out.vacuity = [('some run ends with the transport quiet', nquiet > 0)]
        ctx.out.samples.append({'decoder': fn.name, 'options': [security, chunk, padding, side], 'segments': nseg, 'runs': len(results)})
    return job
