"""C04 - decoding is independent of how the byte stream is segmented, and never stalls.

Engine M with the ideal-AEAD ghost log in mode `exact`: the input is a GENUINE stream, laid out from the protocol specifications
(props/wire.py) with symbolic sizes and contents, and the real decoder is driven the way tokio-util's FramedRead drives it (decode
until Ok(None), then read) while the transport delivers the stream in 1, 2 or 3 consecutive non-empty segments whose cut points
are symbolic - every cut of every frame length at once - and then goes quiet (no EOF).  Oracle: no error, and when the transport
goes quiet everything the sender wrote has been released, in order (no loss, no stall, same result for every segmentation).
The WebSocket adapter is repository code: the MIR of WebSocketFramed::poll_next is executed with the inner stream and the decoder
as contracts; it may return Pending only if the inner stream returned Pending in that call (otherwise no waker is registered).
"""
import re
import z3

from ..values import *  # noqa
from ..engine import Inconclusive
from ..models import one, U
from .common import *  # noqa
from .. import crypto, ideal
from . import wire
from . import c05

PROPERTY_ID = 'C04'
LEVEL = 'proof'
BOUNDS = {'vmess': 'VMess jobs: 2 chunks, at most 2 segments in both tiers; the thorough tier adds the unauthenticated-size-field jobs with 2 segments and, for Shadowsocks, 3 chunks and 3 segments', 'stream': 'genuine stream of 2 application chunks of arbitrary content, each 1..65535 bytes, plus the protocol handshake',
          'segmentation': '1 and 2 consecutive non-empty segments with symbolic cut points (all positions at once) in both tiers; 3 segments were measured not to finish in 10 minutes per job and are outside',
          'loops': 'decode calls per run bounded (reaching the bound is inconclusive)'}
TRUSTED_BASE = ['rustc MIR printer', 'vf.engine', 'vf.ideal (a genuine ciphertext opens under the right key and nonce, nothing else does)', 'props/wire.py reference layouts (written from the specifications)',
                'tokio-util FramedRead loop as documented (modelled by the driver, replayed natively on the real FramedRead)', 'z3']
ASSUMPTIONS = ['Shadowsocks 2022: salt and fixed-length header arrive in the first read (protocol requirement; that boundary is exempt)',
               'TLS / QUIC / WebSocket read boundaries surface as segment boundaries of the byte stream']
EXPLANATION = 'for every cut position: released bytes == sender plaintext and no Err (unsat of the negation per path)'


def make_ss_tcp_job(N, kind, mode, tier, nseg):
    legacy = not kind.startswith('Aead2022')

    def job(ctx):
        from . import decoders
        K = 2 - (0 if legacy else 1)     # both tiers (larger bounds were measured not to finish)
        case = decoders.ss_tcp_cases(ctx.prog, [(N, kind, mode, False, False)])[0]
        ex = c05.base_exec(ctx, N, 2 * K + 4, mode='exact')
        case.setup(ex)
        ex.cut_loops = []
        # the salt cache is a real set here: the decoder may look the salt up several times while it waits for the header
        cache = []

        def check_nonce(ex_, p, m, a, fu, fr):
            arr, off, ln = ex_.bytes_view(p.st, a[1])
            seen = F
            for (sa, so, sl) in p.ghost.get('salts', []):
                seen = z3.Or(seen, z3.And(*[z3.Select(sa, so + bv64(i)) == z3.Select(arr, off + bv64(i)) for i in range(N)]))
            return one((z3.simplify(seen), 'bool'))

        def set_nonce(ex_, p, m, a, fu, fr):
            v = ex_.deref_all(p.st, a[1]) if isinstance(a[1], Ref) else a[1]
            return one(U(), apply=lambda q: q.ghost.setdefault('salts', []).append((v.arr, bv64(0), bv64(N))))
        ex.overrides.insert(0, (re.compile(r'Context::<.*>::check_nonce$'), check_nonce))
        ex.overrides.insert(0, (re.compile(r'Context::<.*>::set_nonce$'), set_nonce))
        key_arr = case.st0['#ctx'].fields[0].arr
        own_salt = case.st0['#sess'].fields[1].fields[0].arr
        req = wire.ss_tcp_stream(legacy, key_arr, N, 'request', K, 'req')
        resp = wire.ss_tcp_stream(legacy, key_arr, N, 'response', K, 'resp', request_salt=req.fields['salt'])
        genuine = resp if mode == 'Client' else req
        pcs = list(genuine.constraints) + list(genuine.layout)
        if mode == 'Client':
            pcs += [z3.Select(own_salt, bv64(i)) == z3.Select(req.fields['salt'], bv64(i)) for i in range(N)]
        secs = z3.BitVec('clock_secs', 64)
        if not legacy:
            # a fresh handshake: the receiver's clock is within 30 s of the timestamp
            from .c10 import absdiff_le
            pcs += [secs >= 0, absdiff_le(genuine.fields['ts'], secs, 30)]
        src = genuine.realize()
        st0 = dict(case.st0)
        st0['#src'] = src
        ex.inputs = {'src': src, 'own_salt': Arr(own_salt, 'u8', N)}
        ex.inputs.update(c05.payload_inputs('chunk', genuine))
        if not legacy and nseg > 1:
            # SIP022: salt + fixed-length header arrive in the first read
            first = genuine.boundaries()[1]
            pcs.append(z3.UGE(z3.BitVec('cut1', 64), first))
        rp = c05.framed_spec('ss_tcp', {'N': N, 'kind': kind, 'mode': mode}, 'all_delivered', [['chunk%d' % i for i in range(len(genuine.payloads))]], {'own_salt': 'own_salt'})
        results = c05.drive(ex, case.fn, case.args, st0, pcs, {'sealed': list(genuine.entries)}, 3 * nseg + 2 * K + 4, c05.opt_item, nseg=nseg)
        site = case.fn.name + '@framed'
        nquiet = 0
        for p, rel, end in results:
            ctx.absorb(ex, [p], replay_of=(lambda v: rp(v.model or {})) if rp else None)
            if end == 'calls':
                ctx.out.inconclusive.append('decode call bound reached')
                continue
            if end == 'err':
                ctx.prove(ex, p, F, 'a valid stream is refused with an error in some segmentation', site, replay=rp)
                continue
            if end != 'quiet':
                continue
            nquiet += 1
            prove_all(ctx, ex, p, rel, genuine.payloads, 'a valid stream has completely arrived but not all of its content is released (stall or loss) in some segmentation', site, rp)
        ctx.out.vacuity = [('some run ends with the transport quiet', nquiet > 0)]
        ctx.out.samples.append({'decoder': case.name, 'segments': nseg, 'chunks': len(genuine.payloads), 'runs': len(results)})
    return job


def prove_all(ctx, ex, p, rel, chunks, msg, site, rp):
    """released pieces == the sender's chunks, in order"""
    pcs_ = [pc for pc in c05.pieces_of(ex, p, rel)]
    # zero-length pieces may be dropped by the decoder (an empty item is not an item)
    if len(pcs_) == len(chunks) and all(z3.eq(pa, ca) for (pa, _o, _l), (ca, _co, _cl) in zip(pcs_, chunks)):
        cond = z3.And(*[z3.And(po == co, pl == cl) for (_pa, po, pl), (_ca, co, cl) in zip(pcs_, chunks)])
        return ctx.prove(ex, p, cond, msg, site, replay=rp)
    arr, total = c05.concat_view(ex, p, rel)
    want = c05.sum_len(chunks)
    j = fresh('j', BV64)
    exp = bvv(0, 8)
    base = bv64(0)
    for (a, o, ln) in chunks:
        exp = z3.If(z3.And(z3.UGE(j, base), z3.ULT(j - base, ln)), z3.Select(a, o + (j - base)), exp)
        base = base + ln
    return ctx.prove(ex, p, z3.And(total == want, z3.Implies(z3.ULT(j, want), z3.Select(arr, j) == exp)), msg, site, replay=rp)


def jobs(prog, tier):
    js = []
    # measured: Shadowsocks jobs with 3 segments (and 3 chunks) do not finish in 10 minutes; both tiers use 1 and 2 segments
    segs = (1, 2)
    for (N, kind) in ((16, 'Aes128Gcm'), (32, 'ChaCha20Poly1305'), (16, 'Aead2022Blake3Aes128Gcm'), (32, 'Aead2022Blake3Aes256Gcm'), (32, 'Aead2022Blake3ChaCha20Poly1305')):
        for mode in ('Server', 'Client'):
            for nseg in segs:
                js.append(('ss::tcp::decode[N=%d,%s,%s,segments=%d]' % (N, kind, mode, nseg), make_ss_tcp_job(N, kind, mode, tier, nseg), 1500))
    for (chunk, padding) in c05.VMESS_COMBOS:
        for side in ('server', 'client'):
            sec = 'Aes128Gcm' if (chunk, side) != ('Auth', 'client') else 'Chacha20Poly1305'
            for nseg in segs:
                if tier != 'thorough' and (chunk, padding) == ('Shake', 'Shake') and nseg > 1:
                    continue    # masked size + padding with symbolic cuts: 11 min per job, thorough tier only
                if nseg > 2:
                    continue    # VMess jobs: at most two segments (three were not measured to finish within the job cap)
                js.append(('vmess::decode_payload[%s,%s,%s,%s,segments=%d]' % (sec, chunk, padding, side, nseg), make_vmess_body_job(sec, chunk, padding, side, tier, nseg), 3000))
    for (chunk, padding) in (('Shake', 'Shake'), ('Auth', 'Shake'), ('Plain', 'Empty')):
        for nseg in segs:
            if tier != 'thorough' and (chunk, padding) == ('Shake', 'Shake') and nseg > 1:
                continue
            if nseg > 2:
                continue
            js.append(('vmess::decode_packet[Aes128Gcm,%s,%s,server,segments=%d]' % (chunk, padding, nseg), make_vmess_body_job('Aes128Gcm', chunk, padding, 'server', tier, nseg, packet=True), 1500))
    js.append(('WebSocketFramed::poll_next', make_ws_job(), 600))
    for (chunk, padding, command) in (('Auth', 'Empty', 'TCP'), ('Plain', 'Empty', 'UDP'), ('Shake', 'Empty', 'TCP')):
        for nseg in segs:
            if tier != 'thorough' and chunk != 'Auth' and nseg > 1:
                continue    # unauthenticated size fields with symbolic cuts: 20 min per job, thorough tier only
            if nseg > 2:
                continue
            js.append(('vmess::ServerAeadCodec[Aes128Gcm,%s,%s,%s,segments=%d]' % (chunk, padding, command, nseg), make_vmess_server_job('Aes128Gcm', chunk, padding, command, tier, nseg), 3000))
    return js


def make_vmess_body_job(security, chunk, padding, side, tier, nseg, packet=False):
    def job(ctx):
        K = 2     # two chunks in every tier (three chunks with symbolic cuts were not measured to finish within the job cap)
        ex, p0, keys = c05.vmess_setup(ctx, security, chunk, padding, side, 'exact', 3 * K + 6)
        req, resp = c05.vmess_streams(security, chunk, padding, keys, K)
        genuine = req if side == 'server' else resp
        src = genuine.realize()
        fn = ctx.prog.find_impl_fn('AEADBodyCodec', 'decode_packet' if packet else 'decode_payload')
        ex.inputs = {'src': src}
        ex.inputs.update(c05.payload_inputs('chunk', genuine))
        for k in range(genuine.draws + 2):
            ex.inputs['shake%d' % k] = (wire.shake_draw(k), 'u16')
        pcs = genuine.constraints + genuine.layout
        rp = c05.framed_spec('vmess_body', {'security': security, 'chunk': chunk, 'padding': padding, 'side': side, 'packet': packet}, 'all_delivered',
                             [['chunk%d' % i for i in range(K)]])
        results = c05.drive(ex, fn, [Ref('#codec'), Ref('#src'), Ref('#sess')], {'#src': src}, pcs, {'sealed': list(genuine.entries)}, 3 * nseg + 3 * K + 4, c05.opt_item, nseg=nseg, start=p0)
        site = fn.name + '@framed'
        nquiet = 0
        for p, rel, end in results:
            ctx.absorb(ex, [p], replay_of=(lambda v: rp(v.model or {})) if rp else None)
            if end == 'calls':
                ctx.out.inconclusive.append('decode call bound reached')
            elif end == 'err':
                ctx.prove(ex, p, F, 'a valid stream is refused with an error in some segmentation', site, replay=rp)
            elif end == 'quiet':
                nquiet += 1
                if packet:
                    # datagrams: one item per chunk, never merged or split
                    ctx.prove(ex, p, T if len(rel) == K else F, 'datagram boundaries are not preserved (%d items for %d datagrams)' % (len(rel), K), site, replay=rp)
                prove_all(ctx, ex, p, rel, genuine.payloads, 'a valid stream has completely arrived but not all of its content is released (stall or loss) in some segmentation', site, rp)
        ctx.out.vacuity = [('some run ends with the transport quiet', nquiet > 0)]
        ctx.out.samples.append({'decoder': fn.name, 'options': [security, chunk, padding, side], 'segments': nseg, 'runs': len(results)})
    return job


# --------------------------------------------------------------------------- VMess server: auth id + sealed header + data section
def inbound_item(ex, p):
    """Result<Option<InboundIn>> -> [(cond, kind, value)]; value = Agg('item', (msg[, addr]), variant name)"""
    r = p.ret
    outs = []
    if 'Err' in r.payloads or not z3.is_true(z3.simplify(r.disc == 0)):
        outs.append((r.disc == 1, 'err', None))
    if 'Ok' in r.payloads:
        o = r.payloads['Ok'][0]
        outs.append((z3.And(r.disc == 0, o.disc == 0), 'none', None))
        if 'Some' in o.payloads:
            it = o.payloads['Some'][0]
            d = z3.simplify(it.disc)
            if not z3.is_bv_value(d):
                raise Inconclusive('item variant not determined on the path')
            for var, fs in it.payloads.items():
                outs.append((z3.And(r.disc == 0, o.disc == 1), 'some', Agg('item', fs, var)))
                break
    return outs


def vmess_server_exec(ctx, mode, unroll=14):
    from .vmess_cases import vmess_cases
    ex = c05.base_exec(ctx, 16, unroll, mode=mode)
    vmess_option_contract(ex)
    c05.shake_contract(ex)
    return ex


def exact_authid_contracts(ex, plain, crc, fnv):
    """the genuine auth id decrypts (under the registered key) to `plain`, whose CRC field is correct; the header checksum is correct"""
    def ecb(ex_, p, m, a, func, fr):
        s = ex_.as_sref(p.st, a[1])
        return one(U(), apply=lambda q: ex_.bytes_fill(q.st, s, plain, bv64(0), bv64(16)))
    ex.overrides.insert(0, (re.compile(r'Aes128EcbNoPadding::decrypt$'), ecb))
    ex.overrides.insert(0, (re.compile(r'(^|::)crc32$'), lambda ex_, p, m, a, fu, fr: one((crc, 'u32'))))
    ex.overrides.insert(0, (re.compile(r'(?:^|::)fnv1a32$'), lambda ex_, p, m, a, fu, fr: one((fnv, 'u32'))))


def make_vmess_server_job(security, chunk, padding, command, tier, nseg):
    def job(ctx):
        K = 2
        prog = ctx.prog
        ex = vmess_server_exec(ctx, 'exact')
        cmdkey = z3.Array('cmdkey0', BV64, BV8)
        req = wire.vmess_request(cmdkey, security, chunk, padding, command, K)
        plain = z3.Array('authid_plain', BV64, BV8)
        crc = z3.BitVec('authid_crc', 32)
        exact_authid_contracts(ex, plain, crc, req.fields['fnv'])
        fs = prog.find_impl_fn('ServerAeadCodec', 'decode', trait='Decoder', crate='octo-squirrel-server')
        codec = Agg('struct', (List((Arr(cmdkey, 'u8', 16),)), Enum(bv64(0), {}, 'DecodeState'), Enum(bv64(0), {}, 'EncodeState'), (F, 'bool')), 'ServerAeadCodec')
        src = req.realize()
        secs = z3.BitVec('clock_secs', 64)
        ts = z3.Concat(*[z3.Select(plain, bv64(i)) for i in range(8)])
        d = z3.SignExt(2, ts) - z3.SignExt(2, secs)
        pcs = req.constraints + req.layout + [z3.Concat(*[z3.Select(plain, bv64(12 + i)) for i in range(4)]) == crc, d <= 120, d >= -120, secs >= 0, secs < (1 << 61), ts > -(1 << 61), ts < (1 << 61)]
        ex.inputs = {'src': src}
        ex.inputs.update(c05.payload_inputs('chunk', req))
        for k in range(req.draws + 2):
            ex.inputs['shake%d' % k] = (wire.shake_draw(k), 'u16')
        ex.inputs['header'] = Buf('slice', req.fields['header'], bv64(0), req.fields['hlen'])
        ex.inputs['authid_plain'] = Arr(plain, 'u8', 16)
        base_rp = c05.framed_spec('vmess_server', {'security': security, 'chunk': chunk, 'padding': padding, 'command': command}, 'all_delivered', [['chunk%d' % i for i in range(K)]])

        def rp(m):
            s = base_rp(m)
            hd = m.get('header')
            if s is None or not isinstance(hd, dict) or hd['len'] > len(hd['bytes']):
                return None
            s.update(header=hd['bytes'], tagged=True, first_kind=0 if command == 'TCP' else 2)
            if command == 'UDP':
                s['item_count'] = K
            return s
        results = c05.drive(ex, fs, [Ref('#self'), Ref('#src')], {'#self': codec, '#src': src}, pcs, {'sealed': list(req.entries)}, 3 * nseg + 3 * K + 5, inbound_item, nseg=nseg)
        site = fs.name + '@framed'
        want_first = 'ConnectTcp' if command == 'TCP' else 'RelayUdp'
        nquiet = 0
        for p, rel, end in results:
            ctx.absorb(ex, [p], replay_of=(lambda v: rp(v.model or {})) if rp else None)
            if end == 'calls':
                ctx.out.inconclusive.append('decode call bound reached')
            elif end == 'err':
                ctx.prove(ex, p, F, 'a valid request is refused with an error in some segmentation', site, replay=rp)
            elif end == 'quiet':
                nquiet += 1
                msgs = [v.fields[0] for v in rel]
                if rel:
                    ctx.prove(ex, p, T if rel[0].name == want_first else F, 'the first item of a valid request is %s instead of %s in some segmentation (the server then drops the flow)' % (rel[0].name, want_first), site, replay=rp)
                if command == 'UDP':
                    ctx.prove(ex, p, T if len(rel) == K else F, 'datagram boundaries are not preserved (%d items for %d datagrams)' % (len(rel), K), site, replay=rp)
                prove_all(ctx, ex, p, msgs, req.payloads, 'a valid request has completely arrived but not all of its content is released (stall or loss) in some segmentation', site, rp)
        ctx.out.vacuity = [('some run ends with the transport quiet', nquiet > 0)]
        ctx.out.samples.append({'decoder': 'vmess::ServerAeadCodec::decode', 'options': [security, chunk, padding, command], 'segments': nseg, 'runs': len(results)})
    return job


# --------------------------------------------------------------------------- WebSocketFramed::poll_next (repository code)
def make_ws_job():
    """The MIR of WebSocketFramed::poll_next, generic over the transport and the codec: the inner message stream is a contract
    (Pending | end | error | a binary/text message of arbitrary length | a control message), the codec's decode is the Decoder
    contract (Ok(None) consuming nothing, Ok(Some) consuming 1..len bytes, Err).  From every state of the carry-over buffer:
      W1  Pending is returned only if the inner stream returned Pending as the last thing in this call (else no waker is registered);
      W2  when Pending is returned, the decoder has already said "incomplete" about exactly the bytes that are buffered (a frame that
          has completely arrived is never left waiting for another message);
      W3  bytes received and not consumed by the decoder are kept (conservation: carried + received == consumed + kept)."""
    def job(ctx):
        prog = ctx.prog
        ex = ctx.new_exec(unroll=12)
        fn = prog.find_fn(r'codec::<impl at octo-squirrel/src/codec\.rs:[^>]*>::poll_next$')
        carry_len = z3.BitVec('carry_len', 64)
        has_carry = z3.Bool('has_carry')
        tried = z3.Bool('carry_already_incomplete')   # ghost: the decoder has already returned None on exactly the carried bytes

        def poll_inner(ex_, p, m, a, fu, fr):
            n = p.ghost.get('polls', 0)
            if n >= 3:
                return [dict(stop='inner poll bound')]
            ml = fresh('msg_len', BV64)
            binary = fresh('msg_is_data', z3.BoolSort())
            msg = Agg('struct', ((binary, 'bool'), Buf('bytes', fresh_bytes('msg'), bv64(0), ml)), 'Message')
            k = fresh('inner', z3.BitVecSort(2))

            def mk(pending, got):
                def app(q):
                    q.ghost['polls'] = n + 1
                    q.ghost['last_inner_pending'] = pending
                    if got is not None:
                        q.ghost['received'] = q.ghost.get('received', bv64(0)) + z3.If(binary, got, bv64(0))
                        q.ghost['fresh_bytes'] = z3.Or(q.ghost.get('fresh_bytes', F), z3.And(binary, got != 0))
                return app
            poll = lambda v: Enum(bv64(0), {'Ready': (v,)}, 'Poll')
            return [dict(cond=k == 0, value=Enum(bv64(1), {}, 'Poll'), apply=mk(True, None)),
                    dict(cond=k == 1, value=poll(opt_none()), apply=mk(False, None)),
                    dict(cond=k == 2, value=poll(opt_some(res_err(Opaque('ws error')))), apply=mk(False, None)),
                    dict(cond=z3.And(k == 3, z3.ULE(ml, 1 << 20)), value=poll(opt_some(res_ok(msg))), apply=mk(False, ml))]

        def decode(ex_, p, m, a, fu, fr):
            from ..models import target_ref
            tr = target_ref(ex_, p, a[1])
            b = ex_.load(p.st, tr.base, tr.proj)
            k = fresh('dec', z3.BitVecSort(2))
            used = fresh('used', BV64)

            def some(q):
                ex_.store(q.st, tr.base, tr.proj, b.with_(off=b.off + used, len=b.len - used))
                q.ghost['consumed'] = q.ghost.get('consumed', bv64(0)) + used
                q.ghost['none_on'] = None
                q.ghost['fresh_bytes'] = F

            def none(q):
                q.ghost['none_on'] = b.len
                q.ghost['fresh_bytes'] = F
            # a decoder that already said "incomplete" about exactly these bytes says so again (Decoder contract: deterministic)
            known_incomplete = z3.And(z3.Not(p.ghost.get('fresh_bytes', F)), tried, p.ghost.get('consumed') is None)
            return [dict(cond=k == 0, value=res_ok(opt_none()), apply=none),
                    dict(cond=z3.And(k == 1, z3.ULE(used, b.len), used != 0, z3.Not(known_incomplete)), value=res_ok(opt_some(Opaque('item'))), apply=some),
                    dict(cond=z3.And(k == 2, z3.Not(known_incomplete)), value=res_err(Opaque('decode error')))]
        ex.overrides += [
            (re.compile(r'StreamExt>::poll_next_unpin$'), poll_inner),
            (re.compile(r'^<C as (?:tokio_util::codec::)?Decoder>::decode$'), decode),
            (re.compile(r'^<Pin<&mut WebSocketFramed<.*>> as (?:std::ops::)?DerefMut>::deref_mut$'), lambda ex_, p, m, a, fu, fr: one(ex_.final_ref(p.st, a[0]))),
            (re.compile(r'^Message::(is_binary|is_text)$'), lambda ex_, p, m, a, fu, fr: one((ex_.deref_all(p.st, a[0]).fields[0][0] if m.group(1) == 'is_binary' else F, 'bool'))),
            (re.compile(r'^Message::(as_payload|into_payload)$'), lambda ex_, p, m, a, fu, fr: one((ex_.deref_all(p.st, a[0]) if isinstance(a[0], Ref) else a[0]).fields[1])),
            (re.compile(r'^<tokio_websockets::Payload as (?:std::ops::)?Deref>::deref$'), lambda ex_, p, m, a, fu, fr: one(a[0])),
            (re.compile(r'^<BytesMut as From<tokio_websockets::Payload>>::from$'), lambda ex_, p, m, a, fu, fr: one(Buf('bytesmut', a[0].arr, a[0].off, a[0].len))),
        ]
        carry = Enum(z3.If(has_carry, bv64(1), bv64(0)), {'Some': (Buf('bytesmut', z3.Array('carry', BV64, BV8), bv64(0), carry_len),)}, 'Option')
        # fields: stream, codec, encode_item, decode_item, buffer, readable ("the buffer holds bytes the decoder has not seen")
        readable = z3.Bool('readable')
        me = Agg('struct', (Opaque('stream'), Opaque('codec'), Agg('zst', ()), Agg('zst', ()), carry, (readable, 'bool')), 'WebSocketFramed')
        nfields = 5
        ex.inputs = {'has_carry': (has_carry, 'bool'), 'carry_len': (carry_len, 'usize'), 'carry_already_incomplete': (tried, 'bool')}
        # representation invariant of the adapter: bytes the decoder has not seen yet are flagged readable
        pcs = [z3.ULE(carry_len, 1 << 20), z3.Implies(has_carry, carry_len != 0), z3.Implies(z3.Not(has_carry), z3.Not(tried)), z3.Implies(has_carry, readable == z3.Not(tried)),
               z3.Implies(z3.Not(has_carry), z3.Not(readable))]
        paths = ex.run(fn, [Ref('#pin'), Opaque('cx')], pcs, st0={'#pin': Ref('#self'), '#self': me})
        ctx.absorb(ex, paths)
        site = fn.name + '@return'

        def rp(m):
            return {'entry': 'ws_framed'}
        npend = nready = 0
        for p in paths:
            if p.status != 'return':
                continue
            ret = p.ret
            d = z3.simplify(ret.disc)
            pending = z3.is_bv_value(d) and d.as_long() == 1
            buf = p.st['#self'].fields[nfields - 1]
            kept = z3.If(buf.disc == 1, buf.payloads['Some'][0].len, bv64(0)) if 'Some' in buf.payloads else bv64(0)
            received = p.ghost.get('received', bv64(0))
            consumed = p.ghost.get('consumed', bv64(0))
            if p.ghost.get('consumed') is None:
                consumed = bv64(0)
            start = z3.If(has_carry, carry_len, bv64(0))
            ctx.prove(ex, p, start + received == consumed + kept, 'bytes that were received and not consumed by the decoder are dropped (the next frame is then decoded from its middle)', site, replay=rp)
            if pending:
                npend += 1
                ctx.prove(ex, p, T if p.ghost.get('last_inner_pending') else F, 'poll_next returns Pending although the inner stream did not return Pending in this call: no waker is registered, the task is never polled again', site, replay=rp)
                none_on = p.ghost.get('none_on')
                if 'none_on' in p.ghost and none_on is not None:
                    ok = kept == none_on
                elif 'none_on' in p.ghost:
                    ok = kept == 0          # the last decode produced an item: whatever is left has not been offered to the decoder
                else:
                    ok = z3.Or(kept == 0, tried)      # nothing decoded in this call: only fine if the carried bytes were already found incomplete
                ctx.prove(ex, p, ok, 'poll_next returns Pending while bytes are buffered that the decoder has not been asked about: a frame that has completely arrived waits for another message (stall)', site, replay=rp)
            else:
                nready += 1
        ctx.out.vacuity = [('some path returns Pending', npend > 0), ('some path returns Ready', nready > 0)]
        ctx.out.samples.append({'function': fn.name, 'paths': len(paths), 'pending_paths': npend})
    return job
