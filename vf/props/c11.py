"""C11 - each UDP packet ID is accepted at most once, in any arrival order.

Engine M over the MIR of PacketWindowFilter::{new, validate_packet_id}:
 * one inductive step from a fully symbolic filter state constrained only by the representation invariant
   (witness formulation: arbitrary ID w with ghost Boolean seen_w), arbitrary packet id and limit;
 * base case from the MIR of new();
 * the client-side caller's reaction to a refused ID (DatagramPacketCodec::decode must not return Err);
 * thorough: bounded model checking of two calls from new() against an explicit set.
"""
import z3

from ..values import *  # noqa
from ..engine import Inconclusive

PROPERTY_ID = 'C11'
LEVEL = 'proof'
WINDOW = 8128
BOUNDS = {
    'ids': 'all 2^64 packet ids, all 2^64 limits, all filter states satisfying the invariant (induction: histories of any length)',
    'loop': 'for d in 1..=diff unrolled to 131 per path (the code clamps diff to 128; reaching the bound is reported, never assumed)',
    'bmc': 'thorough tier: 2 calls from new() with symbolic ids against an explicit set',
}
TRUSTED_BASE = ['rustc MIR printer (nightly) for the dev profile with overflow checks', 'vf.engine MIR->z3 translation', 'z3 4.x (Python API 5.1.0)',
                'representation invariant Inv (stated in DESIGN.md C11); it is proved inductive here, not assumed correct']
ASSUMPTIONS = ['window size of the specification is 8128 ids behind the highest accepted id (property text), limit semantics id >= limit refused',
               'server-side reaction (break inside an async select! loop) is outside the claim']
EXPLANATION = 'induction over filter states with a ghost witness; each obligation is an unsat query over 64-bit bit-vectors and an array of 128 words'


def blk(x):
    return z3.LShR(x, 6)


def bit(ring, x):
    return z3.Extract(0, 0, z3.LShR(z3.Select(ring, blk(x) & 127), x & 63)) == 1


def inv(last, ring, w, seen):
    return z3.And(z3.Implies(z3.UGT(w, last), z3.Not(seen)),
                  z3.Implies(z3.And(z3.ULE(blk(w), blk(last)), z3.ULE(blk(last) - blk(w), 127)), bit(ring, w) == seen))


def candidate_histories(m):
    L, P, W = m.get('last', 0), m.get('pid', 0), m.get('w', 0)
    pre = []
    seen = []
    if m.get('seen_pid') and P <= L:
        seen.append(P)
    if m.get('seen_w') and W <= L:
        seen.append(W)
    pre = sorted(set(seen))
    if L not in pre and L != 0:
        pre.append(L)
    hs = [pre + [P], pre + [P, P], pre + [P, W], pre + [P, W, P], pre + [W, P, W], [L, P, L], [P, L, P], [W, L, P, W]]
    deltas = [0, 1, 2, 63, 64, 65, 127, 128, 8127, 8128, 8129, 8191, 8192, 8193, 16384]
    for base in {L, P, W}:
        for d in deltas:
            for sgn in (1, -1):
                x = base + sgn * d
                if 0 <= x < 2 ** 64:
                    hs.append(pre + [x, P])
                    hs.append(pre + [P, x])
                    hs.append([base, x, base, x])
    out = []
    seenh = set()
    for h in hs:
        t = tuple(h)
        if t not in seenh:
            seenh.add(t)
            out.append([str(x) for x in h])
    return out


def replay_spec(m):
    return {'entry': 'packet_window_history', 'limit': str(m.get('lim', 2 ** 64 - 1)), 'histories': candidate_histories(m), 'expect': 'mismatch'}


def job_induction(ctx):
    prog = ctx.prog
    ex = ctx.new_exec(unroll=131)
    fn = prog.find_impl_fn('PacketWindowFilter', 'validate_packet_id')
    last = z3.BitVec('last', 64)
    ring = z3.Array('ring', BV64, BV64)
    pid = z3.BitVec('pid', 64)
    lim = z3.BitVec('lim', 64)
    w = z3.BitVec('w', 64)
    seen_w = z3.Bool('seen_w')
    seen_pid = z3.Bool('seen_pid')
    pre = [inv(last, ring, w, seen_w), inv(last, ring, pid, seen_pid), z3.Implies(w == pid, seen_w == seen_pid)]
    st0 = {'#self': Agg('struct', ((last, 'u64'), Arr(ring, 'u64', 128)), 'PacketWindowFilter')}
    ex.inputs = {'last': (last, 'u64'), 'pid': (pid, 'u64'), 'lim': (lim, 'u64'), 'w': (w, 'u64'), 'seen_w': (seen_w, 'bool'), 'seen_pid': (seen_pid, 'bool')}
    paths = ex.run(fn, [Ref('#self'), (pid, 'u64'), (lim, 'u64')], pre, st0=st0)
    ctx.absorb(ex, paths, replay_of=lambda v: replay_spec(v.model))
    ctx.out.bounds = {'unroll': 131}
    j = z3.BitVec('j', 64)
    naccept = nrefuse = 0
    twin_refuted = False
    rp = ('vf.props.c11', 'replay_spec')
    for p in paths:
        if p.status != 'return':
            continue
        ret = p.ret[0]
        s = p.st['#self']
        last2 = s.fields[0][0]
        ring2 = s.fields[1].arr
        spec_acc = z3.And(z3.ULT(pid, lim), z3.Not(seen_pid), z3.Or(z3.UGT(pid, last), z3.ULE(last - pid, WINDOW)))
        site = fn.name + '@return'
        ctx.defer(ex, p, ret == spec_acc, 'accept decision differs from the set model (id < limit, unseen, not more than 8128 behind)', site, replay=rp)
        ctx.defer(ex, p, last2 == z3.If(z3.And(ret, z3.UGT(pid, last)), pid, last), 'highest accepted id not tracked', site, replay=rp)
        ctx.defer(ex, p, inv(last2, ring2, w, z3.Or(seen_w, z3.And(w == pid, ret))),
                  'representation invariant not preserved (an id would later be accepted twice or wrongly refused)', site, replay=rp)
        ctx.defer(ex, p, z3.Implies(z3.Not(ret), z3.And(last2 == last, z3.Implies(z3.ULT(j, 128), z3.Select(ring2, j) == z3.Select(ring, j)))),
                  'a refused id changed the filter state', site, replay=rp)
        if len(p.pcs) < 40:
            sat_acc, _ = ex.check(p.pcs + [ret])
            sat_ref, _ = ex.check(p.pcs + [z3.Not(ret)])
            naccept += bool(sat_acc)
            nrefuse += bool(sat_ref)
            # twin: a false claim at the same program point must be refuted
            sat, _ = ex.check(p.pcs + [z3.Not(ret == z3.ULT(pid, lim))])
            twin_refuted = twin_refuted or sat
    ctx.out.vacuity = [('some path accepts', naccept > 0), ('some path refuses', nrefuse > 0),
                       ('more than 100 loop paths explored (loop reaches 128 iterations)', len(paths) >= 100),
                       ('twin obligation "accept iff id < limit" is refuted', twin_refuted)]
    ctx.out.samples.append({'obligation': 'Inv(last,ring,w,seen_w) /\\ Inv(last,ring,pid,seen_pid) => ret == (pid<lim /\\ ~seen_pid /\\ (pid>last \\/ last-pid<=8128))',
                            'paths': len(paths)})


def job_base(ctx):
    prog = ctx.prog
    ex = ctx.new_exec(unroll=8)
    fn = prog.find_impl_fn('PacketWindowFilter', 'new')
    paths = ex.run(fn, [], [])
    ctx.absorb(ex, paths)
    w = z3.BitVec('w', 64)
    for p in paths:
        if p.status != 'return':
            continue
        s = p.ret
        ctx.prove(ex, p, inv(s.fields[0][0], s.fields[1].arr, w, F), 'new() does not establish the invariant', fn.name + '@return',
                  replay=lambda m: {'entry': 'packet_window_history', 'limit': str(2 ** 64 - 1), 'histories': [['0'], ['0', '0'], [str(m.get('w', 0))], [str(m.get('w', 0))] * 2]},
                  extra_inputs={'w': (w, 'u64')})
        ctx.out.samples.append({'obligation': 'Inv(new().last, new().ring, w, false) for all w'})
    ctx.out.vacuity = [('new() returns', any(p.status == 'return' for p in paths))]


def job_client_reaction(ctx):
    """client DatagramPacketCodec::decode: a refused packet id must not end the reply stream (no Err)"""
    prog = ctx.prog
    ex = ctx.new_exec(unroll=131)
    fn = prog.find_impl_fn('DatagramPacketCodec', 'decode', trait='Decoder', crate='octo-squirrel-client')
    last = z3.BitVec('last', 64)
    ring = z3.Array('ring', BV64, BV64)
    pid = z3.BitVec('pid', 64)
    sid = z3.BitVec('server_sid', 64)
    import re

    def session_decode(ex_, p, m, a, func, fr):
        content = Buf('bytesmut', fresh_bytes('content'), bv64(0), fresh('clen', BV64))
        sess = Agg('struct', ((fresh('csid', BV64), 'u64'), (sid, 'u64'), (pid, 'u64'), opt_none()), 'Session')
        ok = fresh('decode_ok', z3.BoolSort())
        return [dict(cond=ok, value=res_ok(opt_some(Agg('tuple', (content, Opaque('address'), sess)))), apply=lambda q: q.ghost.__setitem__('inner', 'ok')),
                dict(cond=z3.Not(ok), value=res_err(Opaque('decode error')), apply=lambda q: q.ghost.__setitem__('inner', 'err'))]
    ex.overrides.append((re.compile(r'SessionCodec::<.*>::decode$'), session_decode))
    filt = Agg('struct', ((last, 'u64'), Arr(ring, 'u64', 128)), 'PacketWindowFilter')
    own = Agg('struct', ((fresh('c', BV64), 'u64'), (fresh('s', BV64), 'u64'), (fresh('pk', BV64), 'u64'), opt_none()), 'Session')
    st0 = {'#self': Agg('struct', (Opaque('codec'), own, filt), 'DatagramPacketCodec'),
           '#src': Buf('bytesmut', fresh_bytes('src'), bv64(0), fresh('srclen', BV64))}
    ex.inputs = {'last': (last, 'u64'), 'pid': (pid, 'u64')}
    paths = ex.run(fn, [Ref('#self'), Ref('#src')], [], st0=st0)
    ctx.absorb(ex, paths)
    n_refused_err = 0
    for p in paths:
        if p.status != 'return':
            continue
        r = p.ret
        # Err results are fine when the inner decode failed; a filter refusal must be dropped (Ok(None)) instead
        ctx.out.obligations += 1
        sat, model = ex.check(p.pcs + [r.disc != 0])
        if sat and p.ghost.get('inner') == 'ok':
            n_refused_err += 1
            ctx.add_violation('property', 'client DatagramPacketCodec::decode returns Err for a refused packet id (ends the reply task) instead of dropping the datagram',
                              fn.name + '@refused', ex.concretize(model, p), {'entry': 'client_udp_refused_id', 'expect': 'err'})
        else:
            ctx.out.discharged += 1
    ctx.out.vacuity = [('decode paths explored', len(paths) > 3)]
    ctx.out.samples.append({'obligation': 'decode_ok /\\ filter refuses => result is Ok(None), never Err', 'violating_paths': n_refused_err})


def job_bmc2(ctx, first_path_slice):
    """two calls from new() with symbolic ids against the explicit set model; sliced by the first call's path index"""
    prog = ctx.prog
    k, nslices = first_path_slice
    ex = ctx.new_exec(unroll=131)
    newf = prog.find_impl_fn('PacketWindowFilter', 'new')
    fn = prog.find_impl_fn('PacketWindowFilter', 'validate_packet_id')
    p0 = [p for p in ex.run(newf, [], []) if p.status == 'return'][0]
    a = z3.BitVec('id1', 64)
    b = z3.BitVec('id2', 64)
    lim = z3.BitVec('lim', 64)
    ex.inputs = {'id1': (a, 'u64'), 'id2': (b, 'u64'), 'lim': (lim, 'u64')}
    first = ex.run(fn, [Ref('#self'), (a, 'u64'), (lim, 'u64')], [], st0={'#self': p0.ret})
    ctx.absorb(ex, first)
    first = [p for p in first if p.status == 'return']

    def rp(m):
        return {'entry': 'packet_window_history', 'limit': str(m.get('lim', 0)), 'histories': [[str(m.get('id1', 0)), str(m.get('id2', 0))]]}
    for i, p1 in enumerate(first):
        if i % nslices != k:
            continue
        acc1 = z3.ULT(a, lim)      # from the empty state every id below the limit is fresh and not stale
        ctx.prove(ex, p1, p1.ret[0] == acc1, 'first id from new(): accept iff below limit', fn.name + '@bmc1', replay=rp)
        second = ex.run(fn, [Ref('#self'), (b, 'u64'), (lim, 'u64')], list(p1.pcs), st0={'#self': p1.st['#self']})
        ctx.absorb(ex, second, replay_of=lambda v: rp(v.model))
        last1 = z3.If(acc1, a, bv64(0))
        for p2 in second:
            if p2.status != 'return':
                continue
            spec = z3.And(z3.ULT(b, lim), z3.Not(z3.And(acc1, a == b)), z3.Or(z3.UGT(b, last1), z3.ULE(last1 - b, WINDOW)))
            ctx.prove(ex, p2, p2.ret[0] == spec, 'second id: accept decision differs from the set model', fn.name + '@bmc2', replay=rp)
    ctx.out.vacuity = [('first call explored', len(first) > 100)]


def jobs(prog, tier):
    js = [('induction', job_induction, 900), ('base', job_base, 120), ('client_reaction', job_client_reaction, 600)]
    if tier == 'thorough':
        n = 16
        for k in range(n):
            js.append(('bmc2[%d/%d]' % (k, n), (lambda kk: (lambda ctx: job_bmc2(ctx, (kk, n))))(k), 3000))
    return js
