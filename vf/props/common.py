"""Helpers shared by the property scripts: symbolic inputs, decoder states, repo-level contracts."""
import re
import z3

from ..values import *  # noqa
from ..engine import Inconclusive
from ..models import one, U, B, target_ref
from .. import crypto

MAXLEN = 1 << 32


def symbuf(name, kind='bytesmut', maxlen=MAXLEN):
    ln = z3.BitVec(name + '_len', 64)
    return Buf(kind, z3.Array(name, BV64, BV8), bv64(0), ln), z3.ULE(ln, bv64(maxlen))


def symarr(name, n):
    return Arr(z3.Array(name, BV64, BV8), 'u8', n)


def sym(name, ty):
    from ..mir import INT_BITS
    if ty == 'bool':
        return (z3.Bool(name), 'bool')
    return (z3.BitVec(name, INT_BITS[ty]), ty)


CIPHER_METHOD_VARIANTS = ['Aes128Gcm', 'Aes256Gcm', 'ChaCha8Poly1305', 'ChaCha20Poly1305', 'XChaCha8Poly1305', 'XChaCha20Poly1305']
CIPHER_KINDS = ['Aes128Gcm', 'Aes256Gcm', 'ChaCha20Poly1305', 'Aead2022Blake3Aes128Gcm', 'Aead2022Blake3Aes256Gcm', 'Aead2022Blake3ChaCha8Poly1305',
                'Aead2022Blake3ChaCha20Poly1305', 'Unknown']


def cipher_method(variant):
    return Enum(bv64(CIPHER_METHOD_VARIANTS.index(variant)), {variant: (Opaque('cipher'),)}, 'CipherMethod')


def cipher_kind(name):
    return Enum(bv64(CIPHER_KINDS.index(name)), {}, 'CipherKind')


def ss_authenticator(variant, nonce_name='nonce'):
    """codec::shadowsocks::Authenticator { method, nonce_generator: IncreasingNonceGenerator { nonce: [u8;12] } }"""
    return Agg('struct', (cipher_method(variant), Agg('struct', (symarr(nonce_name, 12),), 'IncreasingNonceGenerator')), 'Authenticator')


def enum_val(ename, prog, variant, payload=()):
    infos = prog.enum_info(ename)
    for _f, names in infos:
        for n, d in names:
            if n == variant:
                return Enum(bv64(d), {variant: tuple(payload)} if payload else {}, ename)
    raise KeyError(variant)


def install_repo_contracts(ex, clock=None):
    """contracts for repo functions whose bodies are I/O, time or hash plumbing (stated in the evidence)"""
    if clock is not None:
        ex.clock = clock

    def kdf16(ex_, p, m, a, func, fr):
        labels = []
        try:
            lst = ex_.deref_all(p.st, a[1]) if isinstance(a[1], Ref) else a[1]
            for it in getattr(lst, 'items', ()):
                la, lo, ll = ex_.bytes_view(p.st, it)
                n = z3.simplify(ll)
                if z3.is_bv_value(n) and n.as_long() <= 40 and 'K(' in str(la)[:400] + 'K(':
                    bs = [z3.simplify(z3.Select(la, lo + bv64(i))) for i in range(n.as_long())]
                    labels.append(''.join(chr(b.as_long()) if z3.is_bv_value(b) else '?' for b in bs))
                else:
                    labels.append(crypto.prov(ex_, p.st, it))
        except Exception:
            labels.append('?')
        arr = crypto.tag_prov(fresh_bytes('kdf16'), 'kdf16(%s;%s)' % (crypto.prov(ex_, p.st, a[0]), '|'.join(labels)))
        return one(Arr(arr, 'u8', 16))

    def kdfn(ex_, p, m, a, func, fr):
        n = int(m.group(1)) if m.group(1).isdigit() else ex_.const_generics[m.group(1)]
        return one(Arr(fresh_bytes('kdfn'), 'u8', n))
    ex.overrides.append((re.compile(r'(^|::)kdf16$'), kdf16))
    ex.overrides.append((re.compile(r'(?:^|::)kdfn::<(\w+)>$'), kdfn))

    def hkdfsha1(ex_, p, m, a, func, fr):
        _arr, _off, ln = ex_.bytes_view(p.st, a[1])
        ok = fresh('hkdf_ok', z3.BoolSort())
        return [dict(cond=ok, value=res_ok(Buf('vec', fresh_bytes('hkdf'), bv64(0), ln))), dict(cond=z3.Not(ok), value=res_err(Opaque('InvalidLength')))]
    ex.overrides.append((re.compile(r'(^|::)hkdfsha1$'), hkdfsha1))

    def session_sub_key(ex_, p, m, a, func, fr):
        return one(Arr(fresh_bytes('subkey'), 'u8', 32))
    ex.overrides.append((re.compile(r'(^|::)session_sub_key$'), session_sub_key))

    def crc32(ex_, p, m, a, func, fr):
        return one((fresh('crc32', z3.BitVecSort(32)), 'u32'))
    ex.overrides.append((re.compile(r'(^|::)crc32$'), crc32))

    def fnv(ex_, p, m, a, func, fr):
        return one((fresh('fnv1a32', z3.BitVecSort(32)), 'u32'))
    ex.overrides.append((re.compile(r'(?:^|::)fnv1a32$'), fnv))

    def session_init(ex_, p, m, a, func, fr):
        # (Client|Server)Session::init: response iv/key are SHA-256 prefixes of the request iv/key (hash plumbing): fresh arrays
        return one(Agg('struct', (a[0], a[1], Arr(fresh_bytes('resp_iv'), 'u8', 16), Arr(fresh_bytes('resp_key'), 'u8', 16), a[2]), m.group(1)))
    ex.overrides.append((re.compile(r'(ClientSession|ServerSession)::init$'), session_init))

    def chacha_key(ex_, p, m, a, func, fr):
        return one(Arr(crypto.tag_prov(fresh_bytes('chachakey'), 'chacha(%s)' % crypto.prov(ex_, p.st, a[0])), 'u8', 32))
    ex.overrides.append((re.compile(r'(?:^|::)generate_chacha20_poly1305_key$'), chacha_key))

    def hex_decode(ex_, p, m, a, func, fr):
        _arr, _off, ln = ex_.bytes_view(p.st, a[0])
        ok = fresh('hex_ok', z3.BoolSort())
        return [dict(cond=z3.And(ok, z3.URem(ln, bv64(2)) == 0), value=res_ok(Buf('vec', fresh_bytes('hexout'), bv64(0), z3.LShR(ln, 1)))),
                dict(cond=z3.Not(z3.And(ok, z3.URem(ln, bv64(2)) == 0)), value=res_err(Opaque('DecodeHexError')))]
    ex.overrides.append((re.compile(r'(^|::)hex::decode$'), hex_decode))


def udp_cipher_cache_contract(ex, variant_for_kind=None):
    """udp::get_cipher (a process-wide LRU of CipherMethod behind an unsafe cast) as a contract: a reference to a cipher of the
    variant that udp::new_cipher builds for the kind; the cache itself (shared mutable static) is outside the claim (C09)."""
    def get_cipher(ex_, p, m, a, func, fr):
        kind = a[0]
        d = z3.simplify(kind.disc)
        variant = 'Aes128Gcm'
        if z3.is_bv_value(d):
            variant = {3: 'Aes128Gcm', 4: 'Aes256Gcm', 5: 'XChaCha8Poly1305', 6: 'XChaCha20Poly1305'}.get(d.as_long(), 'Aes128Gcm')
        r = p.alloc(cipher_method(variant), 'cipher')
        return one(r)
    ex.overrides.append((re.compile(r'(^|::)get_cipher$'), get_cipher))


def ecb_contract(ex):
    """crypto::Aes{128,256}EcbNoPadding::{encrypt,decrypt} (macro-generated; panics: key shorter than the key size,
    buffer length not a multiple of the block size)"""
    def ecb(ex_, p, m, a, func, fr):
        ks = 16 if m.group(1) == '128' else 32
        _ka, _ko, klen = ex_.bytes_view(p.st, a[0])
        s = ex_.as_sref(p.st, a[1])
        n = s.len if m.group(2) == 'decrypt' else a[2][0]

        eo = fresh_bytes('ecb')

        def app(q):
            ex_.bytes_fill(q.st, s, eo, bv64(0), n)
            q.ghost.setdefault('ecb', []).append(('ok', eo, n))
        return one(U(), oblig=[(z3.UGE(klen, bv64(ks)), 'Aes%sEcbNoPadding: key shorter than %d bytes' % (m.group(1), ks)),
                               (z3.And(z3.URem(n, bv64(16)) == 0, z3.ULE(n, s.len)), 'Aes%sEcbNoPadding: length not a multiple of the block size' % m.group(1))], apply=app)
    ex.overrides.append((re.compile(r'Aes(128|256)EcbNoPadding::(encrypt|decrypt)$'), ecb))


def user_manager_contract(ex, nusers_term=None):
    n = nusers_term if nusers_term is not None else z3.BitVec('user_count', 64)

    def user_count(ex_, p, m, a, func, fr):
        return one((n, 'usize'))

    def get_user(ex_, p, m, a, func, fr):
        found = fresh('user_found', z3.BoolSort())
        N = ex_.const_generics.get('N', 16)
        user = Agg('struct', (Buf('string', fresh_bytes('uname'), bv64(0), fresh('unamelen', BV64)), Arr(fresh_bytes('ukey'), 'u8', N), Arr(fresh_bytes('uhash'), 'u8', 16)), 'ServerUser')
        r = p.alloc(user, 'user')
        val = r if func.endswith('get_user_by_hash') else Agg('arc', (r,))
        return [dict(cond=z3.And(found, n != 0), value=opt_some(val)), dict(cond=z3.Not(z3.And(found, n != 0)), value=opt_none())]
    ex.overrides.append((re.compile(r'ServerUserManager::<.*>::user_count$'), user_count))
    ex.overrides.append((re.compile(r'ServerUserManager::<.*>::(get_user_by_hash|clone_user_by_hash)$'), get_user))


def vmess_option_contract(ex):
    """RequestOption::{from_mask, get_mask} and <[RequestOption]>::contains on the option set as a bit mask
    (the discriminants are the wire bits 1,2,4,8,16); from_mask/get_mask are cross-checked by Kani on the real code"""
    def from_mask(ex_, p, m, a, func, fr):
        return one(Agg('optmask', (a[0],), 'OptionSet'))

    def get_mask(ex_, p, m, a, func, fr):
        v = ex_.deref_all(p.st, a[0])
        if isinstance(v, Agg) and v.kind == 'optmask':
            # the real get_mask unwraps a reduce(): an empty set panics
            return one((v.fields[0][0] & 0x1f, 'u8'), oblig=[((v.fields[0][0] & 0x1f) != 0, 'RequestOption::get_mask on an empty option list (Option::unwrap on None)')])
        if isinstance(v, List):
            acc = bvv(0, 8)
            for it in v.items:
                acc = acc | z3.Extract(7, 0, it.disc)
            if not v.items:
                return [dict(panic='RequestOption::get_mask on an empty option list')]
            return one((acc, 'u8'))
        raise Inconclusive('get_mask on %r' % (v,))

    def contains(ex_, p, m, a, func, fr):
        v = ex_.deref_all(p.st, a[0])
        x = ex_.deref_all(p.st, a[1])
        if isinstance(v, Agg) and v.kind == 'optmask':
            return one(((v.fields[0][0] & z3.Extract(7, 0, x.disc)) != 0, 'bool'))
        if isinstance(v, List):
            return one((z3.Or(*[it.disc == x.disc for it in v.items]) if v.items else F, 'bool'))
        raise Inconclusive('contains on %r' % (v,))
    ex.overrides.append((re.compile(r'RequestOption::from_mask$'), from_mask))
    ex.overrides.append((re.compile(r'RequestOption::get_mask$'), get_mask))
    ex.overrides.append((re.compile(r'<impl \[RequestOption\]>::contains$'), contains))
    ex.overrides.append((re.compile(r'^<(?:std::vec::)?Vec<RequestOption> as (?:std::ops::)?Deref>::deref$'), lambda ex_, p, m, a, f, fr: one(a[0])))


def decoder_violation_replay(entry, extra=None):
    def f(v):
        m = v.model or {}
        spec = {'entry': entry, 'expect': 'panic'}
        for k, val in m.items():
            if isinstance(val, dict) and 'bytes' in val:
                spec[k] = val['bytes']
                spec[k + '_len'] = val['len']
            else:
                spec[k] = val
        if extra:
            spec.update(extra)
        return spec
    return f


def nonce_generator_contract(ex):
    """IncreasingNonceGenerator::generate summarised by its contract (+1 on 96 little-endian bits, returns &self.nonce);
    the contract itself is proved against the MIR of generate in C12."""
    def gen(ex_, p, m, a, func, fr):
        tr = target_ref(ex_, p, a[0])
        g = ex_.load(p.st, tr.base, tr.proj)
        arr = g.fields[0]
        val = z3.Concat(*[z3.Select(arr.arr, bv64(i)) for i in reversed(range(12))]) + z3.BitVecVal(1, 96)
        na = arr.arr
        for i in range(12):
            na = z3.Store(na, bv64(i), z3.Extract(8 * i + 7, 8 * i, val))
        ng = Agg('struct', (Arr(na, 'u8', 12),), 'IncreasingNonceGenerator')
        return one(Ref(tr.base, tr.proj + (('field', 0),)), apply=lambda q: ex_.store(q.st, tr.base, tr.proj, ng))
    ex.overrides.append((re.compile(r'IncreasingNonceGenerator::generate$'), gen))
