"""C12 - no key ever encrypts two messages with the same nonce.

Engine M: the nonce generators as exact arithmetic (for every state), one generator step per seal/open in both Authenticators with the
post-step value handed to the cipher, packet-id advance without wrap, reply decoding that leaves the send counters alone, distinct key
derivations for the VMess length and body ciphers, and (encoders, bounded writes) pairwise distinct (key, nonce) pairs in the order the
real encoders seal.
"""
import re
import z3

from ..values import *  # noqa
from ..engine import Inconclusive
from ..models import one, U
from .common import *  # noqa
from . import decoders
from .. import crypto

PROPERTY_ID = 'C12'
LEVEL = 'proof'
BOUNDS = {'generators': 'every 96-bit / 16-bit state and every nonce buffer content', 'encoders': 'first write plus 2 further writes of arbitrary sizes per encoder; chunk loops 3 iterations',
          'randomness': 'values drawn from rand are arbitrary (unpredictability and collision probability are outside)'}
TRUSTED_BASE = ['rustc MIR printer', 'vf.engine', 'vf.crypto contracts (AEAD calls logged with the nonce they receive; key derivations as provenance-tagged fresh keys)', 'z3']
ASSUMPTIONS = ['distinct key-derivation inputs give independent keys (idealised KDF)', 'quality of the random number generator is outside']
EXPLANATION = 'generator steps as bit-vector identities; (key, nonce) pairs of sealed messages pairwise distinct'


def le96(arr):
    return z3.Concat(*[z3.Select(arr, bv64(i)) for i in reversed(range(12))])


def job_increasing(ctx):
    prog = ctx.prog
    ex = ctx.new_exec(unroll=14)
    ex.summarize = False
    fn = prog.find_impl_fn('IncreasingNonceGenerator', 'generate')
    n0 = symarr('nonce', 12)
    ex.inputs = {'nonce': n0}
    paths = ex.run(fn, [Ref('#g')], [], st0={'#g': Agg('struct', (n0,), 'IncreasingNonceGenerator')})
    ctx.absorb(ex, paths)

    def rp(m):
        return {'entry': 'increasing_nonce', 'nonce': m.get('nonce')}
    for p in paths:
        if p.status != 'return':
            continue
        after = p.st['#g'].fields[0]
        ctx.prove(ex, p, le96(after.arr) == le96(n0.arr) + 1, 'IncreasingNonceGenerator::generate is not +1 on the 96-bit little-endian counter', fn.name + '@return', replay=rp)
        ret = ex.deref_all(p.st, p.ret)
        ctx.prove(ex, p, z3.And(*[z3.Select(ret.arr, bv64(i)) == z3.Select(after.arr, bv64(i)) for i in range(12)]) if isinstance(ret, Arr) else F,
                  'generate() does not return the advanced nonce', fn.name + '@return', replay=rp)
    init = prog.find_impl_fn('IncreasingNonceGenerator', 'init')
    for p in ex.run(init, [], []):
        if p.status == 'return':
            arr = p.ret.fields[0]
            ctx.prove(ex, p, le96(arr.arr) + 1 == 0, 'IncreasingNonceGenerator::init must start one step before nonce 0', init.name + '@return', replay=lambda m: {'entry': 'increasing_nonce', 'nonce': None})
    ctx.out.vacuity = [('13 carry paths', len(paths) >= 12)]
    ctx.out.samples.append({'obligation': 'LE96(nonce\') == LE96(nonce) + 1 (mod 2^96) for every state'})


def job_counting(ctx):
    prog = ctx.prog
    ex = ctx.new_exec(unroll=6)
    fn = prog.find_impl_fn('CountingNonceGenerator', 'generate')
    count = z3.BitVec('count', 16)
    buf = symarr('noncebuf', 16)
    ex.inputs = {'count': (count, 'u16'), 'noncebuf': buf}

    def rp(m):
        return {'entry': 'counting_nonce', 'count': m.get('count'), 'buf': m.get('noncebuf')}
    paths = ex.run(fn, [Ref('#g'), Ref('#buf')], [], st0={'#g': Agg('struct', ((count, 'u16'), (bv64(12), 'usize')), 'CountingNonceGenerator'), '#buf': buf})
    ctx.absorb(ex, paths, replay_of=lambda v: rp(v.model))
    for p in paths:
        if p.status != 'return':
            continue
        b2 = p.st['#buf']
        g2 = p.st['#g']
        site = fn.name + '@return'
        ctx.prove(ex, p, z3.And(z3.Select(b2.arr, bv64(0)) == z3.Extract(15, 8, count), z3.Select(b2.arr, bv64(1)) == z3.Extract(7, 0, count)),
                  'CountingNonceGenerator: nonce bytes 0-1 are not the big-endian counter (whatever the buffer held before)', site, replay=rp)
        ctx.prove(ex, p, z3.And(*[z3.Select(b2.arr, bv64(i)) == z3.Select(buf.arr, bv64(i)) for i in range(2, 16)]), 'CountingNonceGenerator changed nonce bytes beyond the counter', site, replay=rp)
        ctx.prove(ex, p, g2.fields[0][0] == count + 1, 'CountingNonceGenerator: counter does not advance by one', site, replay=rp)
        ret = p.ret
        ra, ro, rl = ex.bytes_view(p.st, ret)
        ctx.prove(ex, p, z3.And(rl == 12, *[z3.Select(ra, ro + bv64(i)) == z3.Select(b2.arr, bv64(i)) for i in range(12)]), 'CountingNonceGenerator does not return the first nonce_size bytes of the buffer', site, replay=rp)
    ctx.out.vacuity = [('returns', any(p.status == 'return' for p in paths))]
    ctx.out.samples.append({'obligation': 'nonce[0..2] == BE(count), rest untouched, count\' == count + 1 (mod 2^16), for every buffer content'})


def job_packet_id(ctx):
    prog = ctx.prog
    ex = ctx.new_exec(unroll=4)
    ex.const_generics = {'N': 16}
    fn = prog.find_impl_fn('Session', 'increase_packet_id', file_part='udp.rs')
    pid = z3.BitVec('packet_id', 64)
    ex.inputs = {'packet_id': (pid, 'u64')}
    sess = Agg('struct', ((z3.BitVec('csid', 64), 'u64'), (z3.BitVec('ssid', 64), 'u64'), (pid, 'u64'), opt_none()), 'Session')
    paths = ex.run(fn, [Ref('#s')], [], st0={'#s': sess})
    ctx.absorb(ex, paths, replay_of=lambda v: {'entry': 'packet_id_wrap'})
    for p in paths:
        if p.status != 'return':
            continue
        after = p.st['#s'].fields[2][0]
        ok = T
        if isinstance(p.ret, Enum):
            ok = p.ret.disc == 0
        ctx.prove(ex, p, z3.Implies(ok, z3.UGT(after, pid)), 'the UDP session reuses packet ids after 2^64 datagrams instead of ending (counter wraps)', fn.name + '@return',
                  replay=lambda m: {'entry': 'packet_id_wrap'})
    ctx.out.vacuity = [('returns', any(p.status == 'return' for p in paths))]
    ctx.out.samples.append({'obligation': 'id\' > id or the session reports exhaustion'})


def nonce_eq(ex, call, arr12):
    _op, na, no, nl, _k = call
    return z3.And(nl == 12, *[z3.Select(na, no + bv64(i)) == z3.Select(arr12, bv64(i)) for i in range(12)])


def job_ss_authenticator(ctx):
    """codec::shadowsocks::Authenticator::{seal, open, encode_size, decode_size}: exactly one generator step, and the cipher gets that nonce"""
    prog = ctx.prog
    for meth in ('seal', 'open', 'encode_size', 'decode_size'):
        ex = ctx.new_exec(unroll=14)
        crypto.install(ex)
        fn = prog.find_impl_fn('Authenticator', meth, file_part='codec/shadowsocks.rs')
        n0 = symarr('nonce', 12)
        auth = Agg('struct', (cipher_method('Aes128Gcm'), Agg('struct', (n0,), 'IncreasingNonceGenerator')), 'Authenticator')
        b, c = symbuf('data')
        st0 = {'#a': auth, '#d': b}
        args = [Ref('#a'), Ref('#d')] if meth != 'encode_size' else [Ref('#a'), SRef(Ref('#d'), bv64(0), b.len)]
        ex.inputs = {'nonce': n0}
        paths = ex.run(fn, args, [c, z3.UGE(b.len, 18)], st0=st0)
        ctx.absorb(ex, paths)
        for p in paths:
            if p.status != 'return':
                continue
            after = p.st['#a'].fields[1].fields[0]
            calls = p.ghost.get('aead_calls', [])
            site = fn.name + '@return'
            rp = lambda m, meth=meth: {'entry': 'ss_authenticator_step', 'method': meth, 'nonce': m.get('nonce')}
            ctx.prove(ex, p, le96(after.arr) == le96(n0.arr) + 1, 'shadowsocks Authenticator::%s does not advance the nonce by exactly one step' % meth, site, replay=rp)
            ctx.prove(ex, p, T if len(calls) == 1 else F, 'shadowsocks Authenticator::%s makes %d AEAD calls for one nonce step' % (meth, len(calls)), site, replay=rp)
            if len(calls) == 1:
                ctx.prove(ex, p, nonce_eq(ex, calls[0], after.arr), 'shadowsocks Authenticator::%s hands the cipher a nonce other than the freshly advanced one' % meth, site, replay=rp)
    ctx.out.vacuity = [('obligations', ctx.out.obligations > 8)]
    ctx.out.samples.append({'obligation': 'one AEAD call per call, nonce passed == LE96(pre)+1'})


def job_vmess_authenticator(ctx):
    prog = ctx.prog
    for meth in ('seal', 'open'):
        ex = ctx.new_exec(unroll=6)
        crypto.install(ex)
        fn = prog.find_impl_fn('Authenticator', meth, file_part='codec/vmess/aead.rs')
        count = z3.BitVec('count', 16)
        noncebuf = symarr('sessionnonce', 16)
        auth = Agg('struct', (cipher_method('Aes128Gcm'), Agg('struct', ((count, 'u16'), (bv64(12), 'usize')), 'CountingNonceGenerator')), 'Authenticator')
        b, c = symbuf('data')
        ex.inputs = {'count': (count, 'u16'), 'sessionnonce': noncebuf}
        paths = ex.run(fn, [Ref('#a'), Ref('#d'), SRef(Ref('#n'), bv64(0), bv64(16))], [c, z3.UGE(b.len, 16)], st0={'#a': auth, '#d': b, '#n': noncebuf})
        ctx.absorb(ex, paths)
        for p in paths:
            if p.status != 'return':
                continue
            calls = p.ghost.get('aead_calls', [])
            after = p.st['#a'].fields[1].fields[0][0]
            site = fn.name + '@return'
            rp = lambda m, meth=meth: {'entry': 'counting_nonce', 'count': m.get('count'), 'buf': m.get('sessionnonce')}
            ctx.prove(ex, p, after == count + 1, 'vmess Authenticator::%s does not advance the chunk counter by one' % meth, site, replay=rp)
            ok = F
            if len(calls) == 1:
                _op, na, no, nl, _k = calls[0]
                ok = z3.And(nl == 12, z3.Select(na, no) == z3.Extract(15, 8, count), z3.Select(na, no + 1) == z3.Extract(7, 0, count),
                            *[z3.Select(na, no + bv64(i)) == z3.Select(noncebuf.arr, bv64(i)) for i in range(2, 12)])
            ctx.prove(ex, p, ok, 'vmess Authenticator::%s: the nonce given to the cipher is not counter(2, big-endian) || session nonce[2..12]' % meth, site, replay=rp)
    ctx.out.vacuity = [('obligations', ctx.out.obligations >= 4)]


def job_client_reply_keeps_counters(ctx):
    """client DatagramPacketCodec::decode must not touch the session's own client_session_id / packet_id (the send counters)"""
    prog = ctx.prog
    ex = ctx.new_exec(unroll=131)
    fn = prog.find_impl_fn('DatagramPacketCodec', 'decode', trait='Decoder', crate='octo-squirrel-client')
    own_c, own_p = z3.BitVec('own_csid', 64), z3.BitVec('own_pid', 64)

    def session_decode(ex_, p, m, a, func, fr):
        content = Buf('bytesmut', fresh_bytes('content'), bv64(0), fresh('clen', BV64))
        sess = Agg('struct', ((fresh('r_csid', BV64), 'u64'), (fresh('r_ssid', BV64), 'u64'), (fresh('r_pid', BV64), 'u64'), opt_none()), 'Session')
        ok = fresh('decode_ok', z3.BoolSort())
        return [dict(cond=ok, value=res_ok(opt_some(Agg('tuple', (content, Opaque('address'), sess))))), dict(cond=z3.Not(ok), value=res_err(Opaque('decode error')))]
    ex.overrides.append((re.compile(r'SessionCodec::<.*>::decode$'), session_decode))
    ex.overrides.append((re.compile(r'PacketWindowFilter::validate_packet_id$'), lambda ex_, p, m, a, fu, fr: one((fresh('fresh_id', z3.BoolSort()), 'bool'))))
    own = Agg('struct', ((own_c, 'u64'), (z3.BitVec('own_ssid', 64), 'u64'), (own_p, 'u64'), opt_none()), 'Session')
    st0 = {'#self': Agg('struct', (Opaque('codec'), own, Opaque('filter')), 'DatagramPacketCodec'), '#src': Buf('bytesmut', fresh_bytes('src'), bv64(0), fresh('srclen', BV64))}
    ex.inputs = {'own_pid': (own_p, 'u64')}
    paths = ex.run(fn, [Ref('#self'), Ref('#src')], [], st0=st0)
    ctx.absorb(ex, paths)
    for p in paths:
        if p.status != 'return':
            continue
        s2 = p.st['#self'].fields[1]
        if isinstance(s2, Opaque):
            ctx.out.inconclusive.append('session became opaque')
            continue
        ctx.prove(ex, p, z3.And(s2.fields[0][0] == own_c, s2.fields[2][0] == own_p), 'decoding a reply changed the client session id / packet id used for sending (packet ids would repeat)',
                  fn.name + '@return', replay=lambda m: {'entry': 'client_udp_counters'})
    ctx.out.vacuity = [('paths', len(paths) >= 3)]
    ctx.out.samples.append({'obligation': 'decode() leaves client_session_id and packet_id of the sending session unchanged'})


def job_vmess_length_key(ctx):
    """AEADBodyCodec::new with AuthenticatedLength: the length cipher's key must be derived (kdf16 .. "auth_len"), never the body key"""
    prog = ctx.prog
    fn = prog.find_impl_fn('AEADBodyCodec', 'new_encoder')
    for sec, secd in (('Aes128Gcm', 3), ('Chacha20Poly1305', 4)):
        for side in ('ClientSession', 'ServerSession'):
            ex = ctx.new_exec(unroll=6)
            crypto.install(ex)
            install_repo_contracts(ex)
            vmess_option_contract(ex)
            hdr = Agg('struct', ((bvv(1, 8), 'u8'), Enum(bv64(1), {}, 'RequestCommand'), Agg('optmask', ((bvv(16 | 4 | 8 | 1, 8), 'u8'),), 'OptionSet'),
                                 Enum(bv64(secd), {}, 'SecurityType'), Opaque('address'), symarr('id', 16)), 'RequestHeader')
            sess = Agg('struct', (symarr('req_iv', 16), symarr('req_key', 16), symarr('resp_iv', 16), symarr('resp_key', 16), (z3.BitVec('resp_hdr', 8), 'u8')), side)
            paths = ex.run(fn, [Ref('#h'), Ref('#s')], [], st0={'#h': hdr, '#s': sess})
            ctx.absorb(ex, paths)
            for p in paths:
                if p.status != 'return' or 'Ok' not in p.ret.payloads:
                    continue
                codec = p.ret.payloads['Ok'][0]
                body = codec.fields[0].fields[0]
                chunk = codec.fields[1]
                bkey = str(body.payloads.get(next(iter(body.payloads)), ('?',))[0])
                ckey = '?'
                if 'Auth' in chunk.payloads:
                    cm = chunk.payloads['Auth'][0].fields[0]
                    ckey = str(cm.payloads.get(next(iter(cm.payloads)), ('?',))[0])
                ctx.out.obligations += 1
                if 'auth_len' in ckey and 'kdf16' in ckey and ckey != bkey:
                    ctx.out.discharged += 1
                else:
                    ctx.add_violation('property', 'VMess %s/%s: authenticated-length cipher key is %s, body cipher key is %s - the length key must be the kdf16(.."auth_len") derivation, distinct from the body key'
                                      % (sec, side, ckey, bkey), fn.name + '@' + sec, {'length_key': ckey, 'body_key': bkey}, {'entry': 'vmess_length_key', 'security': sec})
                ctx.out.samples.append({'security': sec, 'side': side, 'length_key': ckey, 'body_key': bkey})
    ctx.out.vacuity = [('four configurations', ctx.out.obligations >= 4)]


def jobs(prog, tier):
    return [('IncreasingNonceGenerator', job_increasing, 300), ('CountingNonceGenerator', job_counting, 300), ('udp packet id', job_packet_id, 120),
            ('shadowsocks Authenticator', job_ss_authenticator, 600), ('vmess Authenticator', job_vmess_authenticator, 300),
            ('client reply keeps counters', job_client_reply_keeps_counters, 300), ('vmess length key derivation', job_vmess_length_key, 300)]
