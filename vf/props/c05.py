"""C05 - tampered or reflected ciphertext is never delivered as plaintext.

Engine M with the ideal-AEAD ghost log (vf.ideal, mode `attack`): the log holds what the genuine sender (and, where the protocol
separates directions, the opposite direction) sealed - written from the protocol specifications as symbolic entries of arbitrary
sizes and contents - and the real decoder is executed on a FULLY ARBITRARY byte string of arbitrary length: every flip, truncation,
deletion, duplication, swap, splice and reflection of the genuine ciphertexts is some value of it.  Oracle: whatever the decoder
releases is a whole-chunk prefix of what the genuine sender of this direction wrote; a datagram decoder yields exactly one logged
datagram of its direction or nothing.
"""
import re
import z3

from ..values import *  # noqa
from ..engine import Inconclusive
from ..models import one, U
from .common import *  # noqa
from .. import crypto, ideal
from . import wire

PROPERTY_ID = 'C05'
LEVEL = 'proof'
BOUNDS = {'attacker input': 'arbitrary bytes, symbolic length up to 2^32', 'genuine stream': '2 chunks per direction (3 for the AEAD-cipher client jobs) of arbitrary content, each 1..65535 bytes, in both tiers (thorough = quick for this check: three chunks with symbolic cuts did not finish in 20 min)',
          'aead-cipher server': 'AEAD-cipher server decoder: 2 genuine chunks, one segment (the address parse of an attacker-chosen first chunk is expensive)', 'decoder calls': 'one call on the whole attacker stream from the connection\'s initial state (segmentation independence is C04); loop unrolled to 2K+3 iterations, reaching the bound is inconclusive'}
TRUSTED_BASE = ['rustc MIR printer', 'vf.engine', 'vf.ideal (INT-CTXT idealisation of the AEAD: a ciphertext opens only if the same key, nonce, length and tag were sealed)',
                'idealised key derivation (injective pairing of inputs)', 'z3']
ASSUMPTIONS = ['AEAD ciphers are INT-CTXT secure and key derivations collision free (ideal model); tokio-util FramedRead stops at the first Err (its documented has_errored behaviour)',
               'legacy Shadowsocks has no direction separation (reflection exempt, as the property says)']
EXPLANATION = 'released bytes are a prefix of the genuine plaintext for every attacker byte string (unsat of the negation per path)'


def K_of(tier):
    return 3 if tier == 'thorough' else 2


def K_c05(tier):
    """C05's own jobs use the quick bound in both tiers: with three genuine chunks per direction plus symbolic cuts the 2022 and VMess
    jobs did not finish within 20 minutes (measured); the thorough tier of this check therefore equals the quick tier"""
    return 2


def prefix_oracle(out_arr, out_off, out_len, chunks):
    """exists m <= K: out = P_0 .. P_{m-1}; returns the z3 Bool (per-m skolem index for the negated forall)"""
    alts = []
    for m in range(len(chunks) + 1):
        total = bv64(0)
        for (_a, _o, ln) in chunks[:m]:
            total = total + ln
        j = fresh('j', BV64)
        exp = bvv(0, 8)
        base = bv64(0)
        for (a, o, ln) in chunks[:m]:
            exp = z3.If(z3.And(z3.UGE(j, base), z3.ULT(j - base, ln)), z3.Select(a, o + (j - base)), exp)
            base = base + ln
        alts.append(z3.And(out_len == total, z3.Implies(z3.ULT(j, total), z3.Select(out_arr, out_off + j) == exp)))
    return z3.Or(*alts)


def base_exec(ctx, N, unroll, mode='attack'):
    ex = ctx.new_exec(unroll=unroll)
    ex.const_generics = {'N': N}
    crypto.install(ex)
    install_repo_contracts(ex)
    nonce_generator_contract(ex)
    udp_cipher_cache_contract(ex)
    ecb_contract(ex)
    user_manager_contract(ex)
    ideal.install(ex, mode)
    ideal.install_derivations(ex)
    return ex


def make_chunk_decoder_job(variant, tier):
    """ChunkDecoder::decode_payload from the initial state; the sender sealed K chunks under the same key"""
    def job(ctx):
        K = K_c05(tier)
        prog = ctx.prog
        ex = base_exec(ctx, 16, 2 * K + 3)
        kid = ('raw', (z3.BitVec('sessionkey', 128),))
        stream = wire.ss_chunks(kid, K, first_nonce=0)
        A, cA = symbuf('src')
        dst = Buf('bytesmut', fresh_bytes('dst'), bv64(0), bv64(0))
        dec = Agg('struct', (Agg('struct', (ideal.cipher_method(variant, kid), Agg('struct', (Arr(z3.K(BV64, bvv(0xff, 8)), 'u8', 12),), 'IncreasingNonceGenerator')), 'Authenticator'),
                             Enum(bv64(0), {}, 'DecodeState')), 'ChunkDecoder')
        fn = prog.find_impl_fn('ChunkDecoder', 'decode_payload')
        ex.inputs = {'src': A}
        paths = ex.run(fn, [Ref('#self'), Ref('#src'), Ref('#dst')], [cA] + stream.constraints, ghost={'sealed': list(stream.entries)},
                       st0={'#self': dec, '#src': A, '#dst': dst})
        ctx.absorb(ex, paths)
        full = 0
        for p in paths:
            if p.status != 'return':
                continue
            d = p.st['#dst']
            ok = p.ret.disc == 0
            # what FramedRead hands on: the accumulated dst on Ok, nothing on Err
            ctx.prove(ex, p, z3.Implies(ok, prefix_oracle(d.arr, d.off, d.len, stream.payloads)), 'released bytes are not a prefix of what the genuine sender wrote',
                      fn.name + '@return')
            full += ex.check(p.pcs + [ok, d.len == sum_len(stream.payloads)])[0]
        ctx.out.vacuity = [('some path delivers all %d genuine chunks' % K, full > 0)]
        ctx.out.samples.append({'decoder': 'ChunkDecoder::decode_payload[%s]' % variant, 'genuine_chunks': K, 'paths': len(paths)})
    return job


def drive(ex, fn, args, st0, pcs, ghost, max_calls, item_of, src_key='#src', nseg=1, eof=False, start=None):
    """tokio-util FramedRead's documented loop, with the transport delivering the input in `nseg` consecutive non-empty segments
    (symbolic cut points) and then going quiet: after each read, decode is called until it returns Ok(None); Ok(None) makes the
    adapter read again; the first Err ends the stream.  item_of(ex, path) -> [(cond, kind, value)], kind 'some' | 'none' | 'err'.
    Returns [(path, [released values], end)], end in 'quiet' | 'err' | 'calls' | a non-return path status."""
    whole = st0[src_key]
    total = whole.len
    cuts = [z3.BitVec('cut%d' % i, 64) for i in range(1, nseg)]
    bounds = [bv64(0)] + cuts + [total]
    cut_pcs = [z3.ULT(bounds[i], bounds[i + 1]) for i in range(len(bounds) - 1)] if nseg > 1 else []
    for i, cterm in enumerate(cuts):
        ex.inputs['cut%d' % (i + 1)] = (cterm, 'usize')
    st = dict(st0)
    st[src_key] = whole.with_(len=bounds[1])
    out = []
    if start is not None:
        # continue from a finished path (e.g. after the constructor of the codec ran): its state, condition and log carry over
        q0 = start.fork()
        q0.status, q0.ret = start.status, start.ret
        q0.st.update(st)
        q0.pcs += list(pcs) + cut_pcs
        for k, v in (ghost or {}).items():
            q0.ghost.setdefault(k, [])
            q0.ghost[k] = list(q0.ghost[k]) + list(v)
        first = ex.resume(q0, fn, args)
    else:
        first = ex.run(fn, args, list(pcs) + cut_pcs, ghost=ghost, st0=st)
    work = [(p, [], 1, 1) for p in first]
    while work:
        p, rel, ncall, seg = work.pop()
        if p.status != 'return':
            out.append((p, rel, p.status))
            continue
        for cond, kind, val in item_of(ex, p):
            q = p
            if cond is not None:
                if not ex.check(p.pcs + [cond])[0]:
                    continue
                q = p.fork()
                q.status, q.ret = p.status, p.ret
                q.pcs.append(cond)
            if kind == 'err':
                out.append((q, rel, 'err'))
                continue
            nseg_now = seg
            if kind == 'none':
                # the adapter reads: the next segment is appended to what is left in the buffer
                if seg >= nseg:
                    out.append((q, rel, 'quiet'))
                    continue
                cur = q.st[src_key]
                if not z3.eq(cur.arr, whole.arr) or ex.check(q.pcs + [cur.off + cur.len != bounds[seg]])[0]:
                    raise Inconclusive('read buffer is not a contiguous window of the input after decode returned None')
                q.st[src_key] = cur.with_(len=cur.len + (bounds[seg + 1] - bounds[seg]))
                nseg_now = seg + 1
            rel2 = rel + [val] if kind == 'some' else rel
            if ncall >= max_calls:
                out.append((q, rel2, 'calls'))
                continue
            for r in ex.resume(q, fn, args):
                work.append((r, rel2, ncall + 1, nseg_now))
    return out


def opt_item(ex, p):
    """Result<Option<T>>: fork on the discriminants"""
    r = p.ret
    outs = []
    if 'Err' in r.payloads or not z3.is_true(z3.simplify(r.disc == 0)):
        outs.append((r.disc == 1, 'err', None))
    if 'Ok' in r.payloads:
        o = r.payloads['Ok'][0]
        outs.append((z3.And(r.disc == 0, o.disc == 0), 'none', None))
        if 'Some' in o.payloads:
            outs.append((z3.And(r.disc == 0, o.disc == 1), 'some', o.payloads['Some'][0]))
    return outs


def concat_view(ex, p, vals):
    """released byte strings -> one (arr, len) by folding copy_into"""
    arr = z3.K(BV64, bvv(0, 8))
    total = bv64(0)
    for v in vals:
        a, o, l = ex.bytes_view(p.st, v)
        from ..engine import copy_into
        arr = copy_into(arr, total, a, o, l)
        total = total + l
    return arr, z3.simplify(total)


def pieces_of(ex, p, vals):
    """released values as a flat list of (arr, off, len) pieces, using the construction history of extend_from_slice"""
    from ..models import PIECES
    out = []
    for v in vals:
        a, o, l = ex.bytes_view(p.st, v)
        h = PIECES.get(a.get_id())
        if h is not None and h[0] is not None and z3.eq(h[0], a) and z3.eq(z3.simplify(h[1]), z3.simplify(o)):
            tot = bv64(0)
            for (_a, _o, ln) in h[2]:
                tot = tot + ln
            if z3.is_true(z3.simplify(tot == l)):
                out += h[2]
                continue
        out.append((a, o, l))
    return out


def prove_prefix(ctx, ex, p, rel, candidates, msg, site, replay=None):
    """released pieces must be a whole-chunk prefix of one of the candidate genuine streams.
    First a structural argument (piece i is literally the i-th logged plaintext array: only offsets/lengths go to the solver),
    else the general byte-wise oracle."""
    pcs_ = pieces_of(ex, p, rel)
    for chunks in candidates:
        if len(pcs_) <= len(chunks) and all(z3.eq(pa, ca) for (pa, _o, _l), (ca, _co, _cl) in zip(pcs_, chunks)):
            cond = z3.And(*[z3.And(po == co, pl == cl) for (_pa, po, pl), (_ca, co, cl) in zip(pcs_, chunks)]) if pcs_ else T
            ctx.out.obligations += 1
            if z3.is_true(z3.simplify(cond)) or not ex.check(p.pcs + [z3.Not(cond)])[0]:
                ctx.out.discharged += 1
                return True
            ctx.out.obligations -= 1
    arr, total = concat_view(ex, p, rel)
    spec = z3.Or(*[prefix_oracle(arr, bv64(0), total, chunks) for chunks in candidates])
    return ctx.prove(ex, p, spec, msg, site, replay=replay)


def framed_spec(decoder, cfg, expect, cand_names, extra_cfg=None):
    """replay spec builder: the model's attacker bytes, AEAD outcomes and genuine chunks -> entry `framed` of /verif/replay"""
    def f(m):
        src = m.get('src')
        if not isinstance(src, dict) or src['len'] > len(src['bytes']):
            return None
        spec = {'entry': 'framed', 'decoder': decoder, 'cfg': dict(cfg), 'src': src['bytes'], 'opens': m.get('#opens', []), 'expect': expect,
                'cuts': [m[k] for k in sorted(m) if k.startswith('cut') and isinstance(m[k], int)]}
        for k, v in (extra_cfg or {}).items():
            if isinstance(m.get(v), list):
                spec['cfg'][k] = m[v]
        cands = []
        for names in cand_names:
            chunks = []
            for nme in names:
                v = m.get(nme)
                if not isinstance(v, dict) or v['len'] > len(v['bytes']):
                    return None
                chunks.append(v['bytes'])
            cands.append(chunks)
        spec['candidates'] = cands
        if '#clock_secs' in m:
            spec['clock'] = m['#clock_secs']
        sh = sorted((int(k[5:]), v) for k, v in m.items() if k.startswith('shake') and k[5:].isdigit())
        if sh:
            spec['shake'] = [v for _k, v in sh]
        return spec
    return f


def payload_inputs(prefix, stream):
    """name the genuine chunks so that counterexamples carry their bytes"""
    return {'%s%d' % (prefix, i): Buf('slice', a, o, l) for i, (a, o, l) in enumerate(stream.payloads)}


def make_ss_tcp_job(N, kind, mode, tier, nseg=1):
    legacy = not kind.startswith('Aead2022')

    def job(ctx):
        from . import decoders
        # legacy: three chunks also in the quick tier (a skipped middle chunk needs one before and one after it)
        K = (3 if mode == 'Client' else 2) if legacy else K_c05(tier) - 1
        case = decoders.ss_tcp_cases(ctx.prog, [(N, kind, mode, False, False)])[0]
        ex = base_exec(ctx, N, 2 * K + 4)
        case.setup(ex)
        ex.cut_loops = []
        key_arr = case.st0['#ctx'].fields[0].arr
        own_salt = case.st0['#sess'].fields[1].fields[0].arr
        req = wire.ss_tcp_stream(legacy, key_arr, N, 'request', K, 'req')
        resp = wire.ss_tcp_stream(legacy, key_arr, N, 'response', K, 'resp', request_salt=req.fields['salt'])
        pcs = list(case.pcs) + req.constraints + resp.constraints
        # genuine parties draw independent random salts: the two directions never share a session key
        pcs.append(z3.Or(*[z3.Select(req.fields['salt'], bv64(i)) != z3.Select(resp.fields['salt'], bv64(i)) for i in range(N)]))
        if mode == 'Client':
            # the client under test is the one that sent `req`: its own salt is the request salt
            pcs += [z3.Select(own_salt, bv64(i)) == z3.Select(req.fields['salt'], bv64(i)) for i in range(N)]
            genuine = resp
        else:
            genuine = req
        ex.inputs = dict(case.inputs)
        ex.inputs.update(payload_inputs('req', req))
        ex.inputs.update(payload_inputs('resp', resp))
        if legacy and mode == 'Client':
            ex.inputs.update({'req%d' % i: Buf('slice', a, o, l) for i, (a, o, l) in enumerate(req.raw_chunks)})
        ex.inputs['own_salt'] = Arr(own_salt, 'u8', N)
        gname, oname = ('resp', 'req') if mode == 'Client' else ('req', 'resp')
        names = [['%s%d' % (gname, i) for i in range(len(genuine.payloads))]] + ([['%s%d' % (oname, i) for i in range(len(genuine.payloads))]] if (legacy and mode == 'Client') else [])
        rp = framed_spec('ss_tcp', {'N': N, 'kind': kind, 'mode': mode}, 'not_prefix', names, {'own_salt': 'own_salt'})
        # AEAD ciphers have no direction separation (reflection is exempt): a server is only shown request streams
        log = req.entries + ([] if (legacy and mode == 'Server') else resp.entries)
        results = drive(ex, case.fn, case.args, case.st0, pcs, {'sealed': log}, 4 + nseg + K, opt_item, nseg=nseg)
        full = 0
        nrel = 0
        for p, rel, end in results:
            ctx.absorb(ex, [p])
            if end in ('calls',):
                ctx.out.inconclusive.append('decode call bound reached')
                continue
            if p.status not in ('return',):
                continue
            arr, total = concat_view(ex, p, rel)
            nrel += 1
            # the AEAD-cipher protocol has no direction separation: a reflected stream of the same PSK is another genuine stream (exempt)
            cands = [genuine.payloads] + ([getattr(req, 'raw_chunks', req.payloads)] if (legacy and mode == 'Client') else [])
            prove_prefix(ctx, ex, p, rel, cands, 'released bytes are not a prefix of what the genuine %s wrote' % ('server' if mode == 'Client' else 'client'),
                         case.fn.name + '@released', replay=rp)
            if not legacy and mode == 'Server':
                # the target address the server would dial is the one the genuine client sealed
                addr = p.st['#sess'].fields[2]
                if rel:
                    ctx.prove(ex, p, addr.disc == 1, 'payload released without a decoded target address', case.fn.name + '@address')
            full += ex.check(p.pcs + [total == sum_len(genuine.payloads)])[0]
        ctx.out.vacuity = [('some path delivers the whole genuine stream', full > 0)]
        ctx.out.samples.append({'decoder': case.name, 'genuine_chunks_per_direction': K + (0 if legacy else 1), 'paths': len(results), 'log_entries': len(req.entries) + len(resp.entries)})
    return job


def sum_len(chunks):
    t = bv64(0)
    for (_a, _o, ln) in chunks:
        t = t + ln
    return t


def jobs(prog, tier):
    js = []
    js.append(('ss::ChunkDecoder::decode_payload[Aes128Gcm]', make_chunk_decoder_job('Aes128Gcm', tier), 900))
    for (N, kind) in ((16, 'Aes128Gcm'), (32, 'ChaCha20Poly1305'), (16, 'Aead2022Blake3Aes128Gcm'), (32, 'Aead2022Blake3Aes256Gcm'), (32, 'Aead2022Blake3ChaCha20Poly1305')):
        for mode in ('Server', 'Client'):
            for nseg in (1, 2):
                if not kind.startswith('Aead2022') and mode == 'Server' and nseg > 1:
                    continue    # address parsing of attacker-chosen first chunks with a symbolic cut does not finish within the job cap
                js.append(('ss::tcp::decode[N=%d,%s,%s,segments=%d]' % (N, kind, mode, nseg), make_ss_tcp_job(N, kind, mode, tier, nseg), 3000))
    for (chunk, padding) in VMESS_COMBOS:
        for side in ('server', 'client'):
            sec = 'Aes128Gcm' if (chunk, side) != ('Auth', 'client') else 'Chacha20Poly1305'
            js.append(('vmess::decode_payload[%s,%s,%s,%s]' % (sec, chunk, padding, side), make_vmess_body_job(sec, chunk, padding, side, tier, 1), 1200))
    return js


# --------------------------------------------------------------------------- VMess body
VMESS_OPTS = {'Plain': 0, 'Shake': 4, 'Auth': 16}
VMESS_COMBOS = [('Plain', 'Empty'), ('Shake', 'Shake'), ('Auth', 'Shake'), ('Auth', 'Empty'), ('Shake', 'Empty')]


def shake_contract(ex):
    """ShakeSizeParser::next as the k-th draw of one deterministic stream per connection direction (SHAKE128 of the body IV is a
    function of the IV: sender and receiver see the same draws)"""
    def nxt(ex_, p, m, a, func, fr):
        k = p.ghost.get('shake_idx', 0)

        def app(q):
            q.ghost['shake_idx'] = k + 1
        return one((wire.shake_draw(k), 'u16'), apply=app)
    ex.overrides.insert(0, (re.compile(r'ShakeSizeParser::next$'), nxt))
    ex.overrides.insert(0, (re.compile(r'ShakeSizeParser::new$'), lambda ex_, p, m, a, fu, fr: one(Agg('struct', (Opaque('xof reader'), Arr(z3.K(BV64, bvv(0, 8)), 'u8', 2)), 'ShakeSizeParser'))))


def vmess_setup(ctx, security, chunk, padding, side, mode, unroll):
    """runs the real AEADBodyCodec::new_decoder for a header with the given options and returns (ex, start path, session arrays)"""
    from .vmess_cases import session_val, SECURITY
    ex = base_exec(ctx, 16, unroll, mode=mode)
    vmess_option_contract(ex)
    shake_contract(ex)
    prog = ctx.prog
    mask = 1 | VMESS_OPTS[chunk] | (8 if padding == 'Shake' else 0)
    hdr = Agg('struct', ((bvv(1, 8), 'u8'), Enum(bv64(1), {}, 'RequestCommand'), Agg('optmask', ((bvv(mask, 8), 'u8'),), 'OptionSet'),
                         Enum(bv64(SECURITY[security]), {}, 'SecurityType'), Opaque('address'), symarr('id', 16)), 'RequestHeader')
    sess = session_val('ServerSession' if side == 'server' else 'ClientSession')
    fn = prog.find_impl_fn('AEADBodyCodec', 'new_decoder')
    paths = ex.run(fn, [Ref('#hdr'), Ref('#sess')], [], st0={'#hdr': hdr, '#sess': sess})
    ok = [p for p in paths if p.status == 'return' and 'Ok' in p.ret.payloads and ex.check(p.pcs + [p.ret.disc == 0])[0]]
    for p in paths:
        if p.status != 'return':
            ctx.absorb(ex, [p])
    if len(ok) != 1:
        raise Inconclusive('AEADBodyCodec::new_decoder: %d constructing paths' % len(ok))
    p0 = ok[0]
    p0.pcs.append(p0.ret.disc == 0)
    p0.st['#codec'] = p0.ret.payloads['Ok'][0]
    keys = {'req_key': sess.fields[1].arr, 'req_iv': sess.fields[0].arr, 'resp_key': sess.fields[3].arr, 'resp_iv': sess.fields[2].arr}
    return ex, p0, keys


def vmess_streams(security, chunk, padding, keys, K, hi=0x3000):
    """both directions of one VMess connection: the request body and the response body (the authenticated-length cipher is keyed
    with the request key and IV in both directions, as the implementations of this protocol do)"""
    req = wire.vmess_body_stream(security, chunk, padding, keys['req_key'], keys['req_iv'], keys['req_key'], keys['req_iv'], K, 'req', hi=hi)
    resp = wire.vmess_body_stream(security, chunk, padding, keys['resp_key'], keys['resp_iv'], keys['req_key'], keys['req_iv'], K, 'resp', hi=hi)
    return req, resp


def make_vmess_body_job(security, chunk, padding, side, tier, nseg, packet=False):
    def job(ctx):
        K = K_c05(tier)
        ex, p0, keys = vmess_setup(ctx, security, chunk, padding, side, 'attack', 3 * K + 6)
        req, resp = vmess_streams(security, chunk, padding, keys, K)
        genuine = req if side == 'server' else resp
        other = resp if side == 'server' else req
        A, cA = symbuf('src')
        fn = ctx.prog.find_impl_fn('AEADBodyCodec', 'decode_packet' if packet else 'decode_payload')
        ex.inputs = {'src': A}
        ex.inputs.update(payload_inputs('req', req))
        ex.inputs.update(payload_inputs('resp', resp))
        pcs = [cA] + req.constraints + resp.constraints
        # the two directions use different keys (the response key is a hash of the request key)
        pcs.append(z3.Or(*[z3.Select(keys['req_key'], bv64(i)) != z3.Select(keys['resp_key'], bv64(i)) for i in range(16)]))
        results = drive(ex, fn, [Ref('#codec'), Ref('#src'), Ref('#sess')], {'#src': A}, pcs, {'sealed': req.entries + resp.entries}, 4 + nseg + 2 * K, opt_item, nseg=nseg, start=p0)
        full = 0
        gname = 'req' if side == 'server' else 'resp'
        for k in range(max(req.draws, resp.draws) + 2):
            ex.inputs['shake%d' % k] = (wire.shake_draw(k), 'u16')
        rp = framed_spec('vmess_body', {'security': security, 'chunk': chunk, 'padding': padding, 'side': side, 'packet': packet}, 'not_prefix',
                         [['%s%d' % (gname, i) for i in range(K)]])
        for p, rel, end in results:
            ctx.absorb(ex, [p])
            if end == 'calls':
                ctx.out.inconclusive.append('decode call bound reached')
                continue
            if p.status != 'return':
                continue
            if packet:
                # datagram framing: every released item is exactly one genuine chunk, in order
                cands = [genuine.payloads]
                prove_prefix(ctx, ex, p, rel, cands, 'released datagrams are not a prefix of the datagrams the genuine peer sent', fn.name + '@released', replay=rp)
                arr, total = concat_view(ex, p, rel)
            else:
                prove_prefix(ctx, ex, p, rel, [genuine.payloads], 'released bytes are not a prefix of what the genuine peer wrote', fn.name + '@released', replay=rp)
                arr, total = concat_view(ex, p, rel)
            full += ex.check(p.pcs + [total == sum_len(genuine.payloads)])[0]
        ctx.out.vacuity = [('some path delivers the whole genuine stream', full > 0)]
        ctx.out.samples.append({'decoder': fn.name, 'options': [security, chunk, padding, side], 'segments': nseg, 'runs': len(results)})
    return job
