"""C06 - no relaying without the configured credential; users stay separated.

Engine M on the real server-side decoders with an arbitrary input of arbitrary length.  The ideal-AEAD ghost log holds only what
parties WITHOUT the required credential can have sealed (another pre-shared key; the server key alone where a user key is also
required; another VMess user id) next to genuine traffic of one registered user; the oracle is over the item the decoder hands to
the relay: a connect / relay item is produced only if the credential was presented, and it is attributed to the user whose key
authenticated it.  Trojan: the 56 received characters decode (u8::from_str_radix semantics, as util::hex::decode uses) to the
stored SHA-224 digest.
"""
import re
import z3

from ..values import *  # noqa
from ..engine import Inconclusive
from ..models import one, U
from .common import *  # noqa
from .. import crypto, ideal
from . import wire, c05, decoders

PROPERTY_ID = 'C06'
LEVEL = 'proof'
BOUNDS = {'input': 'arbitrary bytes, symbolic length up to 2^32, delivered in one read (segmentation: C04)', 'user table': 'two registered users A and B (symbolic keys and identity hashes), lookups of any other hash miss',
          'log': 'one genuine request of user A; one request sealed under the server key alone; one request under an unregistered key (each: handshake + 1 chunk)'}
TRUSTED_BASE = ['rustc MIR printer', 'vf.engine', 'vf.ideal (INT-CTXT ideal AEAD, injective key derivations)', 'AES-ECB blocks and CRC32/FNV as arbitrary functions (havoc)',
                'u8::from_str_radix(.., 16) contract (two hex digits, or "+" and one hex digit)', 'z3']
ASSUMPTIONS = ['whether the server dials is decided by the first item the decoder yields (relay_to matches on ConnectTcp / RelayUdp): the async shell is outside',
               'SHA-224 / MD5 / BLAKE3 hashing of the configured secrets at start-up is outside (keys are symbolic)']
EXPLANATION = 'a connect/relay item implies the presented bytes were authenticated under the configured credential, for every input'


def hex_pair(c1, c2):
    """u8::from_str_radix(two chars, 16): (valid, value)"""
    def hv(c):
        dig = z3.And(z3.UGE(c, 0x30), z3.ULE(c, 0x39))
        low = z3.And(z3.UGE(c, 0x61), z3.ULE(c, 0x66))
        up = z3.And(z3.UGE(c, 0x41), z3.ULE(c, 0x46))
        return z3.Or(dig, low, up), z3.If(dig, c - 0x30, z3.If(low, c - 0x57, c - 0x37))
    v1, x1 = hv(c1)
    v2, x2 = hv(c2)
    plus = c1 == 0x2b
    return z3.And(z3.Or(v1, plus), v2), z3.If(plus, x2, (x1 << 4) | x2)


def exact_hex_decode(ex):
    def hex_decode(ex_, p, m, a, func, fr):
        arr, off, ln = ex_.bytes_view(p.st, a[0])
        n = z3.simplify(ln)
        if not z3.is_bv_value(n) or n.as_long() % 2 or n.as_long() > 128:
            return None
        k = n.as_long() // 2
        out = z3.K(BV64, bvv(0, 8))
        valid = []
        for i in range(k):
            v, x = hex_pair(z3.Select(arr, off + bv64(2 * i)), z3.Select(arr, off + bv64(2 * i + 1)))
            valid.append(v)
            out = z3.Store(out, bv64(i), x)
        ok = z3.And(*valid)
        return [dict(cond=ok, value=res_ok(Buf('vec', out, bv64(0), bv64(k)))), dict(cond=z3.Not(ok), value=res_err(Opaque('DecodeHexError')))]
    ex.overrides.insert(0, (re.compile(r'(^|::)hex::decode$'), hex_decode))


def job_trojan(ctx):
    case = decoders.trojan_cases(ctx.prog)[0]
    ex = case.new_exec(ctx)
    exact_hex_decode(ex)
    ex.inputs['trojan_key'] = case.st0['#self'].fields[0]
    paths = ex.run(case.fn, case.args, case.pcs, st0=dict(case.st0))
    ctx.absorb(ex, paths, replay_of=lambda v: case.replay(v.model))
    src = case.inputs['src']
    key = case.st0['#self'].fields[0]
    nacc = 0

    def rp(m):
        s = case.replay(m)
        if s:
            s['expect'] = 'accept'
            s['cfg'] = dict(s.get('cfg', {}), key=m.get('trojan_key'))
        return s
    for p in paths:
        if p.status != 'return' or 'Ok' not in p.ret.payloads:
            continue
        item = p.ret.payloads['Ok'][0]
        acc = z3.And(p.ret.disc == 0, item.disc == 1)
        if not ex.check(p.pcs + [acc])[0]:
            continue
        nacc += 1
        conds = []
        for i in range(28):
            v, x = hex_pair(z3.Select(src.arr, src.off + bv64(2 * i)), z3.Select(src.arr, src.off + bv64(2 * i + 1)))
            conds.append(z3.And(v, x == z3.Select(key.arr, bv64(i))))
        ctx.prove(ex, p, z3.Implies(acc, z3.And(*conds)), 'Trojan server yields a connect/relay item although the 56 presented characters do not decode to the stored password digest',
                  case.fn.name + '@accept', replay=rp)
        # the state machine leaves Header only here
    # no path may leave the Header state without the credential check
    for p in paths:
        if p.status != 'return':
            continue
        st = p.st['#self'].fields[1]
        conds = []
        for i in range(28):
            v, x = hex_pair(z3.Select(src.arr, src.off + bv64(2 * i)), z3.Select(src.arr, src.off + bv64(2 * i + 1)))
            conds.append(z3.And(v, x == z3.Select(key.arr, bv64(i))))
        ctx.prove(ex, p, z3.Implies(st.disc != 0, z3.And(*conds)), 'Trojan server leaves the Header state (later bytes are relayed) without a matching password digest', case.fn.name + '@state', replay=rp)
    ctx.out.vacuity = [('some path accepts a header', nacc > 0)]
    ctx.out.samples.append({'decoder': case.name, 'accepting_paths': nacc})


def two_user_manager(ex, N, ukeys, uhashes):
    """ServerUserManager as a two-entry map: get_user_by_hash(h) = A if h == hashA, B if h == hashB, else None"""
    for idx, (uk, uh) in enumerate(zip(ukeys, uhashes)):
        GLOBAL_USERS['#user%d' % idx] = Agg('struct', (Buf('string', z3.K(BV64, bvv(65 + idx, 8)), bv64(0), bv64(1)), Arr(uk, 'u8', N), Arr(uh, 'u8', 16)), 'ServerUser')

    def user_count(ex_, p, m, a, func, fr):
        return one((bv64(2), 'usize'))

    def get_user(ex_, p, m, a, func, fr):
        ha, ho, hl = ex_.bytes_view(p.st, a[1])
        outs = []
        hits = []
        for idx, (uk, uh) in enumerate(zip(ukeys, uhashes)):
            hit = z3.And(hl == 16, *[z3.Select(ha, ho + bv64(i)) == z3.Select(uh, bv64(i)) for i in range(16)])
            hits.append(hit)
            earlier = z3.Not(z3.Or(*hits[:-1])) if len(hits) > 1 else T

            def mk(idx=idx):
                def app(q):
                    q.ghost.setdefault('lookups', []).append(idx)
                return app
            key = '#user%d' % idx
            val = Ref(key) if func.endswith('get_user_by_hash') else Agg('arc', (Ref(key),))
            outs.append(dict(cond=z3.And(hit, earlier), value=opt_some(val), apply=mk()))
        outs.append(dict(cond=z3.Not(z3.Or(*hits)), value=opt_none(), apply=lambda q: q.ghost.setdefault('lookups', []).append(None)))
        return outs
    ex.overrides.insert(0, (re.compile(r'^<(?:\w+::)*ServerUser<.*> as (?:std::clone::)?Clone>::clone$'), lambda ex_, p, m, a, fu, fr: one(ex_.deref_all(p.st, a[0]))))
    ex.overrides.insert(0, (re.compile(r'ServerUserManager::<.*>::user_count$'), user_count))
    ex.overrides.insert(0, (re.compile(r'ServerUserManager::<.*>::(get_user_by_hash|clone_user_by_hash)$'), get_user))


GLOBAL_USERS = {}


def make_ss_tcp_users_job(N, kind):
    def job(ctx):
        case = decoders.ss_tcp_cases(ctx.prog, [(N, kind, 'Server', True, False)])[0]
        ex = c05.base_exec(ctx, N, 8)
        case.setup(ex)
        ex.cut_loops = []
        psk = case.st0['#ctx'].fields[0].arr
        ukA, ukB = z3.Array('userkeyA', BV64, BV8), z3.Array('userkeyB', BV64, BV8)
        uhA, uhB = z3.Array('userhashA', BV64, BV8), z3.Array('userhashB', BV64, BV8)
        GLOBAL_USERS.clear()
        two_user_manager(ex, N, [ukA, ukB], [uhA, uhB])
        outsider = z3.Array('outsiderkey', BV64, BV8)
        # what can be on the wire: a genuine request of user A; a request sealed under the server key only; one under an unregistered key
        sA = wire.ss_tcp_stream(False, ukA, N, 'request', 1, 'userA')
        sP = wire.ss_tcp_stream(False, psk, N, 'request', 1, 'pskonly')
        sO = wire.ss_tcp_stream(False, outsider, N, 'request', 1, 'outsider')
        differ = lambda x, y: z3.Or(*[z3.Select(x, bv64(i)) != z3.Select(y, bv64(i)) for i in range(N)])
        pcs = list(case.pcs) + sA.constraints + sP.constraints + sO.constraints + [differ(ukA, ukB), differ(ukA, psk), differ(ukB, psk), differ(outsider, ukA), differ(outsider, ukB), differ(outsider, psk),
                                                                                 z3.Or(*[z3.Select(uhA, bv64(i)) != z3.Select(uhB, bv64(i)) for i in range(16)])]
        st0 = dict(case.st0)
        st0.update(GLOBAL_USERS)
        ex.inputs = dict(case.inputs)
        for nm, a in (('psk', psk), ('userkeyA', ukA), ('userkeyB', ukB)):
            ex.inputs[nm] = Arr(a, 'u8', N)
        results = c05.drive(ex, case.fn, case.args, st0, pcs, {'sealed': sA.entries + sP.entries + sO.entries}, 4, c05.opt_item, nseg=1)
        site = case.fn.name + '@item'
        nacc = 0
        for p, rel, end in results:
            ctx.absorb(ex, [p])
            if p.status != 'return' or not rel:
                continue
            nacc += 1
            opened = [op[1] for op in p.ghost.get('ideal_ops', []) if op[0] == 'open']
            looked = (p.ghost.get('lookups') or [None])[-1]
            base_rp = c05.framed_spec('ss_tcp', {'N': N, 'kind': kind, 'mode': 'Server', 'users': True, 'lookup': {0: 'A', 1: 'B'}.get(looked)}, 'released_any', [])
            ctx.prove(ex, p, T if opened and all(any(e is x for x in sA.entries) for e in opened) else F,
                      'the server released request payload that was not authenticated under a registered user key (server key alone or an unregistered key was enough)', site, replay=base_rp)
            user = p.st['#sess'].fields[1].fields[2]
            is_a = F
            if isinstance(user, Enum) and 'Some' in user.payloads:
                u = ex.deref_all(p.st, user.payloads['Some'][0])
                uk = u.fields[1]
                is_a = z3.And(user.disc == 1, *[z3.Select(uk.arr, bv64(i)) == z3.Select(ukA, bv64(i)) for i in range(N)])
            ctx.prove(ex, p, is_a, 'traffic authenticated under user A\'s key is attributed to another user (or to nobody): the reply direction would use the wrong key', site)
        # EIH naming user B with A's ciphertext must not be served
        ctx.out.vacuity = [('some path releases the genuine request of user A', nacc > 0)]
        ctx.out.samples.append({'decoder': case.name, 'accepting_runs': nacc, 'log_entries': len(sA.entries + sP.entries + sO.entries)})
    return job


def make_ss_tcp_psk_job(N, kind):
    """single-key server: nothing sealed under another pre-shared key is ever released"""
    legacy = not kind.startswith('Aead2022')

    def job(ctx):
        case = decoders.ss_tcp_cases(ctx.prog, [(N, kind, 'Server', False, False)])[0]
        ex = c05.base_exec(ctx, N, 8)
        case.setup(ex)
        ex.cut_loops = []
        psk = case.st0['#ctx'].fields[0].arr
        other = z3.Array('otherpsk', BV64, BV8)
        sG = wire.ss_tcp_stream(legacy, psk, N, 'request', 1, 'genuine')
        sO = wire.ss_tcp_stream(legacy, other, N, 'request', 1, 'otherpsk')
        # a key that differs from the configured one in (at least) one bit
        pcs = list(case.pcs) + sG.constraints + sO.constraints + [z3.Or(*[z3.Select(other, bv64(i)) != z3.Select(psk, bv64(i)) for i in range(N)])]
        ex.inputs = dict(case.inputs)
        results = c05.drive(ex, case.fn, case.args, dict(case.st0), pcs, {'sealed': sG.entries + sO.entries}, 5, c05.opt_item, nseg=2)
        nacc = 0
        for p, rel, end in results:
            ctx.absorb(ex, [p])
            if end == 'calls':
                ctx.out.inconclusive.append('decode call bound reached')
            if p.status != 'return' or not rel:
                continue
            nacc += 1
            opened = [op[1] for op in p.ghost.get('ideal_ops', []) if op[0] == 'open']
            ctx.prove(ex, p, T if opened and all(any(e is x for x in sG.entries) for e in opened) else F,
                      'the server released payload that was not sealed under the configured pre-shared key', case.fn.name + '@item',
                      replay=c05.framed_spec('ss_tcp', {'N': N, 'kind': kind, 'mode': 'Server'}, 'released_any', []))
        ctx.out.vacuity = [('some path releases the genuine request', nacc > 0)]
        ctx.out.samples.append({'decoder': case.name, 'accepting_runs': nacc})
    return job


def jobs(prog, tier):
    js = [('trojan::ServerCodec[Header] password', job_trojan, 600)]
    for (N, kind) in ((16, 'Aead2022Blake3Aes128Gcm'), (32, 'Aead2022Blake3Aes256Gcm')):
        js.append(('ss::tcp users[N=%d,%s]' % (N, kind), make_ss_tcp_users_job(N, kind), 900))
    for (N, kind) in ((16, 'Aes128Gcm'), (32, 'ChaCha20Poly1305'), (16, 'Aead2022Blake3Aes128Gcm'), (32, 'Aead2022Blake3ChaCha20Poly1305')):
        js.append(('ss::tcp single key[N=%d,%s]' % (N, kind), make_ss_tcp_psk_job(N, kind), 900))
    js.append(('vmess server unregistered user[Auth,Empty]', make_vmess_job('Auth', 'Empty'), 900))
    js.append(('vmess server unregistered user[Plain,Empty]', make_vmess_job('Plain', 'Empty'), 900))
    return js


def make_vmess_job(chunk, padding):
    """VMess server from its initial state on an arbitrary input; the log holds one complete request sealed under a user id that
    is NOT registered (differs from the registered command key in at least one bit): no item may ever reach the relay.  The auth-id
    block cipher, CRC32 and FNV are arbitrary functions (the attacker may be lucky there); the sealed header is not forgeable."""
    def job(ctx):
        from . import c04
        prog = ctx.prog
        ex = c04.vmess_server_exec(ctx, 'attack')
        registered = z3.Array('cmdkey0', BV64, BV8)
        outsider = z3.Array('outsider_cmdkey', BV64, BV8)
        req = wire.vmess_request(outsider, 'Aes128Gcm', chunk, padding, 'TCP', 1, name='outsider')
        fs = prog.find_impl_fn('ServerAeadCodec', 'decode', trait='Decoder', crate='octo-squirrel-server')
        codec = Agg('struct', (List((Arr(registered, 'u8', 16),)), Enum(bv64(0), {}, 'DecodeState'), Enum(bv64(0), {}, 'EncodeState'), (F, 'bool')), 'ServerAeadCodec')
        A, cA = symbuf('src')
        pcs = [cA] + req.constraints + [z3.Or(*[z3.Select(registered, bv64(i)) != z3.Select(outsider, bv64(i)) for i in range(16)])]
        ex.inputs = {'src': A}
        results = c05.drive(ex, fs, [Ref('#self'), Ref('#src')], {'#self': codec, '#src': A}, pcs, {'sealed': list(req.entries)}, 4, c04.inbound_item, nseg=1)
        nerr = 0
        for p, rel, end in results:
            ctx.absorb(ex, [p])
            if end == 'err':
                nerr += 1
            if p.status != 'return':
                continue
            ctx.prove(ex, p, T if not rel else F, 'the VMess server yields a connect/relay item for a peer whose user id is not registered', fs.name + '@item')
        ctx.out.vacuity = [('some path refuses the input', nerr > 0), ('some path gets past the auth id', any(op[0] in ('open', 'open-fail') for p, _r, _e in results for op in p.ghost.get('ideal_ops', [])))]
        ctx.out.samples.append({'decoder': 'vmess::ServerAeadCodec::decode[Init]', 'log_entries': len(req.entries), 'runs': len(results)})
    return job
