"""C02 - UDP relay preserves each datagram, its addresses and its owner (claimed for the datagram-in-stream framings only).

Engine M: a genuine stream of K datagrams in the Trojan UDP framing ([address][length][CRLF][payload], laid out from the trojan-gfw
protocol description with symbolic payload sizes, contents and addresses) is fed to the real decoders of both ends (server
ServerCodec in its Udp state, client udp::ClientCodec) through the FramedRead loop model in 1, 2 or 3 segments with symbolic cut
points: exactly K items come out, item j carries exactly payload j - never truncated, merged, split or reordered - labelled with
exactly address j, and nothing is yielded before a datagram is complete.  The VMess datagram framing (one chunk per datagram through
the server codec) is checked by the same method in C04 (jobs vmess::ServerAeadCodec[..UDP..] and vmess::decode_packet).
"""
import re
import z3

from ..values import *  # noqa
from ..engine import Inconclusive
from ..models import one, U
from .common import *  # noqa
from . import wire, c05, c04, decoders

PROPERTY_ID = 'C02'
LEVEL = 'proof'
BOUNDS = {'stream': 'one datagram (payload size 0..65535 symbolic, IPv4 or domain address of symbolic length 1..255) followed by an arbitrary tail of up to 2^20 bytes; streams of any number of datagrams follow by induction (the decoders keep no state between datagrams)', 'segmentation': 'buffer cut at an arbitrary point (inside the datagram, at its end, inside the tail)'}
TRUSTED_BASE = ['rustc MIR printer', 'vf.engine', 'props/wire.py Trojan UDP layout', 'FramedRead loop model (replayed on the real FramedRead)', 'z3']
ASSUMPTIONS = ['the select! loops, the client binding table, the server association table, TTLs, channels and sockets are outside (async shell): ownership of a datagram (which local application / session it is routed to) is not decided here',
               'Shadowsocks UDP datagram codecs (raw-pointer encoders, process-wide cipher cache) and Socks5UdpCodec are covered for panic-freedom (C07), type/timestamp/packet-id rules (C10, C11, C12), not for round trips']
EXPLANATION = 'K datagrams in, K identical datagrams out with identical addresses, for every size, content, address and cut'


def trojan_udp_stream(K, akind, name='tudp'):
    s = wire.Stream(name + '_wire')
    s.addrs = []
    for j in range(K):
        pl = z3.BitVec('%s_len%d' % (name, j), 64)
        s.constraints.append(z3.ULE(pl, 0xffff))
        if akind == 'v4':
            a0 = s.raw_bytes([bvv(1, 8)])
            s.raw(6)
            alen = bv64(7)
        else:
            dl = z3.BitVec('%s_dlen%d' % (name, j), 8)
            s.constraints.append(dl != 0)
            a0 = s.raw_bytes([bvv(3, 8), dl])
            s.raw(z3.ZeroExt(56, dl) + 2)
            alen = bv64(4) + z3.ZeroExt(56, dl)
        s.addrs.append((s.base, a0[1], alen))
        s.raw_bytes([z3.Extract(15, 8, pl), z3.Extract(7, 0, pl), bvv(13, 8), bvv(10, 8)])
        s.payloads.append(s.raw(pl))
    return s


def addr_matches(ex, st, got, win, akind, j):
    """decoded Address == the address bytes of the window"""
    arr, pos, _ln = win
    if isinstance(got, Opaque):
        raise Inconclusive('opaque address')
    if akind == 'v4':
        sa = got.payloads['Socket'][0]
        v4 = sa.payloads['V4'][0]
        ip, port = v4.fields[0], v4.fields[1][0]
        return z3.And(got.disc == 1, sa.disc == 0, *[z3.Select(ip.arr, bv64(i)) == z3.Select(arr, pos + bv64(1 + i)) for i in range(4)],
                      port == z3.Concat(z3.Select(arr, pos + 5), z3.Select(arr, pos + 6)))
    host, port = got.payloads['Domain']
    dl = z3.ZeroExt(56, z3.Select(arr, pos + 1))
    return z3.And(got.disc == 0, host.len == dl, z3.Implies(z3.ULT(j, dl), z3.Select(host.arr, host.off + j) == z3.Select(arr, pos + 2 + j)),
                  port[0] == z3.Concat(z3.Select(arr, pos + 2 + dl), z3.Select(arr, pos + 3 + dl)))


def datagram_item(ex, p):
    """Result<Option<(BytesMut, Address)>> or Result<Option<InboundIn>> -> Agg('item', (msg, addr), variant)"""
    r = p.ret
    outs = []
    if 'Err' in r.payloads or not z3.is_true(z3.simplify(r.disc == 0)):
        outs.append((r.disc == 1, 'err', None))
    if 'Ok' in r.payloads:
        o = r.payloads['Ok'][0]
        outs.append((z3.And(r.disc == 0, o.disc == 0), 'none', None))
        if 'Some' in o.payloads:
            it = o.payloads['Some'][0]
            if isinstance(it, Enum):
                for var, fs in it.payloads.items():
                    outs.append((z3.And(r.disc == 0, o.disc == 1), 'some', Agg('item', fs, var)))
                    break
            else:
                outs.append((z3.And(r.disc == 0, o.disc == 1), 'some', Agg('item', it.fields, 'Datagram')))
    return outs


def make_trojan_job(side, akind, tier):
    """one decode call on  D || tail  cut at an arbitrary point c (the decoder keeps no state between datagrams, so by induction
    over the datagrams of a stream and FramedRead's documented loop this decides every stream in every segmentation):
      c < |D|  : Ok(None), buffer untouched;   c >= |D| : exactly (payload, address) of D, buffer left = the rest after D."""
    def job(ctx):
        cases = decoders.trojan_cases(ctx.prog)
        case = cases[2] if side == 'server' else cases[3]
        ex = case.new_exec(ctx)
        s = trojan_udp_stream(1, akind)
        dlen = s.total()
        tail = z3.BitVec('tail_len', 64)
        cut = z3.BitVec('cut1', 64)
        whole = Buf('bytesmut', s.base, bv64(0), cut)
        st0 = dict(case.st0)
        st0['#src'] = whole
        total = Buf('bytesmut', s.base, bv64(0), dlen + tail)
        ex.inputs = {'src': total, 'cut1': (cut, 'usize')}
        ex.inputs.update(c05.payload_inputs('chunk', s))
        pcs = s.constraints + s.layout + [z3.ULE(tail, 1 << 20), z3.ULE(cut, dlen + tail), z3.UGE(cut, 1)]
        base = c05.framed_spec('trojan_server_udp' if side == 'server' else 'trojan_client_udp', {}, 'first_datagram', [['chunk0']])

        def rp(m):
            spec = base(m)
            if spec:
                spec['tagged'] = side == 'server'
                spec['cuts'] = [m['cut1']] if isinstance(m.get('cut1'), int) else []
                spec['datagram_len'] = None
            return spec
        paths = ex.run(case.fn, case.args, pcs, st0=st0)
        ctx.absorb(ex, paths, replay_of=lambda v: rp(v.model or {}))
        site = case.fn.name + '@decode'
        pw, aw = s.payloads[0], s.addrs[0]
        nsome = nnone = 0
        for p in paths:
            if p.status != 'return':
                continue
            for cond, kind, val in datagram_item(ex, p):
                if not ex.check(p.pcs + [cond])[0]:
                    continue
                q = p.fork()
                q.status, q.ret = p.status, p.ret
                q.pcs.append(cond)
                after = q.st['#src']
                if kind == 'err':
                    ctx.prove(ex, q, F, 'a valid datagram (or a prefix of one) is refused with an error', site, replay=rp)
                elif kind == 'none':
                    nnone += 1
                    ctx.prove(ex, q, z3.ULT(cut, dlen), 'a complete datagram is buffered but nothing is yielded (stall)', site, replay=rp)
                    ctx.prove(ex, q, z3.And(after.off == 0, after.len == cut), 'bytes of an incomplete datagram are consumed although nothing is yielded (the rest is then parsed from its middle)', site, replay=rp)
                else:
                    nsome += 1
                    ctx.prove(ex, q, z3.UGE(cut, dlen), 'an item is yielded before the datagram is complete', site, replay=rp)
                    msg = val.fields[0]
                    a, o, l = ex.bytes_view(q.st, msg)
                    ctx.prove(ex, q, T if z3.eq(a, pw[0]) else F, 'the released datagram is not a window of the received bytes', site, replay=rp)
                    ctx.prove(ex, q, z3.And(o == pw[1], l == pw[2]), 'the datagram is released truncated, extended or shifted', site, replay=rp)
                    j = fresh('j', BV64)
                    ctx.prove(ex, q, addr_matches(ex, q.st, val.fields[1], aw, akind, j), 'the datagram is labelled with a different address than the one on the wire', site, replay=rp)
                    ctx.prove(ex, q, z3.And(after.off == dlen, after.len == cut - dlen), 'the decoder does not leave exactly the bytes that follow the datagram (the next datagram is mis-framed)', site, replay=rp)
        ctx.out.vacuity = [('some path yields the datagram', nsome > 0), ('some path waits for more bytes', nnone > 0)]
        ctx.out.samples.append({'decoder': case.name, 'address': akind, 'paths': len(paths)})
    return job


def jobs(prog, tier):
    js = []
    for side in ('server', 'client'):
        for akind in ('v4', 'domain'):
            js.append(('trojan udp[%s,%s]' % (side, akind), make_trojan_job(side, akind, tier), 1200))
    return js
