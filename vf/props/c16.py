"""C16 - configuration names select exactly the documented behaviour.

Engine M: mode predicates against the README table; cipher-kind predicates; the key-size dispatch of client and server (the first
segment of the async startup/transfer bodies, executed as MIR up to the first instantiation they select); key decoding
(password_to_keys, ServerUser::try_from) with Base64 decoding as a contract on the decoded length; the key derivation chosen for
legacy ciphers on UDP.
"""
import re
import z3

from ..values import *  # noqa
from ..engine import Inconclusive
from ..models import one, U
from .common import *  # noqa
from .. import crypto

PROPERTY_ID = 'C16'
LEVEL = 'proof'
BOUNDS = {'modes': 'all 5 values', 'ciphers': 'all 8 CipherKind values', 'keys': 'every decoded key length 0..2^32, 1 or 2 colon-separated parts'}
TRUSTED_BASE = ['rustc MIR printer', 'vf.engine', 'Base64::decode contract (documented behaviour of base64ct)', 'z3']
ASSUMPTIONS = ['serde name tables (string lookup in generated visitors) are outside: checked by the repository unit tests', 'which sockets get bound (async startup) is outside; the predicates that decide it are checked']
EXPLANATION = 'finite tables and key-length logic decided by symbolic execution of the real functions'

MODES = ['Tcp', 'Udp', 'TcpAndUdp', 'Quic', 'TcpAndQuic']
#                 tcp    udp    quic
MODE_TABLE = {'Tcp': (True, False, False), 'Udp': (False, True, False), 'TcpAndUdp': (True, True, False), 'Quic': (False, False, True), 'TcpAndQuic': (True, False, True)}
KEY16 = {'Aes128Gcm', 'Aead2022Blake3Aes128Gcm'}
IS_2022 = {'Aead2022Blake3Aes128Gcm', 'Aead2022Blake3Aes256Gcm', 'Aead2022Blake3ChaCha8Poly1305', 'Aead2022Blake3ChaCha20Poly1305'}
EIH = {'Aead2022Blake3Aes128Gcm', 'Aead2022Blake3Aes256Gcm'}


def job_modes(ctx):
    prog = ctx.prog
    ex = ctx.new_exec(unroll=4)
    n = 0
    for i, mname in enumerate(MODES):
        for col, meth in enumerate(['enable_tcp', 'enable_udp', 'enable_quic']):
            fn = prog.find_impl_fn('Mode', meth, file_part='config.rs')
            for p in ex.run(fn, [Ref('#m')], [], st0={'#m': Enum(bv64(i), {}, 'Mode')}):
                if p.status == 'return':
                    n += 1
                    want = MODE_TABLE[mname][col]
                    ctx.prove(ex, p, p.ret[0] == want, 'mode "%s": %s() must be %s (README)' % (mname, meth, str(want).lower()), fn.name + '@' + mname,
                              replay=lambda m, mname=mname, meth=meth, want=want: {'entry': 'mode_predicate', 'mode': mname, 'method': meth, 'want': want})
                else:
                    ctx.out.inconclusive.append(str(p.note))
    ctx.out.vacuity = [('15 evaluations', n == 15)]
    ctx.out.samples.append({'table': MODE_TABLE})


def job_kinds(ctx):
    prog = ctx.prog
    ex = ctx.new_exec(unroll=4)
    n = 0
    for name in CIPHER_KINDS:
        for meth, want in (('is_aead_2022', name in IS_2022), ('support_eih', name in EIH)):
            fn = prog.find_impl_fn('CipherKind', meth)
            for p in ex.run(fn, [Ref('#k')], [], st0={'#k': cipher_kind(name)}):
                if p.status == 'return':
                    n += 1
                    ctx.prove(ex, p, p.ret[0] == want, 'cipher %s: %s() must be %s' % (name, meth, str(want).lower()), fn.name + '@' + name,
                              replay=lambda m, name=name, meth=meth, want=want: {'entry': 'kind_predicate', 'kind': name, 'method': meth, 'want': want})
        if name != 'Unknown':
            fn = prog.find_impl_fn('CipherKind', 'tag_size')
            ps = ex.run(fn, [Ref('#k')], [], st0={'#k': cipher_kind(name)})
            ctx.absorb(ex, ps)
            for p in ps:
                if p.status == 'return':
                    n += 1
                    ctx.prove(ex, p, p.ret[0] == 16, 'cipher %s: tag size must be 16' % name, fn.name + '@' + name,
                              replay=lambda m, name=name: {'entry': 'kind_predicate', 'kind': name, 'method': 'tag_size', 'want': 16})
    ctx.out.vacuity = [('predicate evaluations', n >= 20)]


def dispatch_job(which):
    """run the first segment of an async body with a symbolic cipher and record which const-generic instantiation it selects"""
    def job(ctx):
        prog = ctx.prog
        crate, pat, hook = {
            'server': ('octo-squirrel-server', r'^server::shadowsocks::startup::\{closure#0\}$', r'ServerUserManager::<(\d+)>::new$'),
            'client_tcp': ('octo-squirrel-client', r'^client::transfer_tcp::\{closure#0\}$', r'transfer_tcp::<.*ClientContext<(\d+)>'),
            'client_udp': ('octo-squirrel-client', r'^client::transfer_udp::\{closure#0\}$', r'transfer_udp::<.*Client<\'_, (\d+)>|new_plain_outbound::<(\d+)>'),
        }[which]
        fn = prog.find_fn(pat, crate=crate)
        results = {}
        for name in CIPHER_KINDS:
            ex = ctx.new_exec(unroll=4)
            ex.summarize = False

            def chosen(ex_, p, m, a, fu, fr):
                n = next(g for g in m.groups() if g)
                return [dict(stop='N=' + n)]

            def refused(ex_, p, m, a, fu, fr):
                return [dict(stop='refused')]
            ex.overrides.append((re.compile(hook), chosen))
            ex.overrides.append((re.compile(r'^Arguments::<.*>::(from_str|new)'), refused))
            ex.overrides.append((re.compile(r'^(?:log::)?__private_api::log|^log::__private_api'), refused))
            fields = [Opaque('host'), Opaque('port'), Opaque('mode'), Opaque('password'), Enum(bv64(0), {}, 'Protocol'), cipher_kind(name), opt_none(), opt_none(), opt_none(), List(()), Agg('zst', ())]
            config = Agg('struct', fields, 'ServerConfig')
            if which == 'server':
                state = Enum(bv64(0), {'#upvars': (Ref('#config'),)}, 'coroutine')
            else:
                state = Enum(bv64(0), {'#upvars': (Opaque('socket'), config)}, 'coroutine')
            st0 = {'#config': config, '#state': state}
            paths = ex.run(fn, [Agg('struct', (Ref('#state'),), 'Pin'), Opaque('task context')], [], st0=st0)
            outcomes = sorted(set(p.note if p.status == 'stopped' else p.status + ':' + str(p.note) for p in paths))
            results[name] = outcomes
            want = 'refused' if name == 'Unknown' else ('N=16' if name in KEY16 else 'N=32')
            ctx.out.obligations += 1
            if want == 'refused' and outcomes and all(o == 'refused' or o.startswith('return') for o in outcomes):
                ctx.out.discharged += 1      # nothing is instantiated for the unknown cipher: logged / reported, no panic
            elif outcomes == [want]:
                ctx.out.discharged += 1
            elif any(o.startswith(('inconclusive', 'unwound')) for o in outcomes):
                ctx.out.inconclusive.append('%s dispatch for %s: %s' % (which, name, outcomes))
            else:
                ctx.add_violation('property', '%s: cipher %s selects %s, documented key size requires %s' % (which, name, outcomes, want), fn.name + '@' + name, {'cipher': name, 'selected': outcomes},
                                  {'entry': 'dispatch', 'which': which, 'kind': name, 'want': want})
        ctx.out.samples.append({'dispatch': which, 'selected': results})
        ctx.out.vacuity = [('both key sizes selected for some cipher', any(v == ['N=16'] for v in results.values()) and any(v == ['N=32'] for v in results.values()))]
    return job


def base64_contract(ex):
    """Base64::decode(src, dst): Err(InvalidLength) if the decoded length exceeds dst.len(), Err(InvalidEncoding) for bad input, otherwise
    writes the decoded bytes to the front of dst and returns that prefix"""
    def dec(ex_, p, m, a, fu, fr):
        dlen = fresh('decoded_len', BV64)
        ok = fresh('b64_ok', z3.BoolSort())
        dst = ex_.as_sref(p.st, a[1])
        content = fresh_bytes('b64')
        good = z3.And(ok, z3.ULE(dlen, dst.len))

        def app(q):
            ex_.bytes_fill(q.st, dst, content, bv64(0), dlen)
            q.ghost.setdefault('b64', []).append(dlen)
        return [dict(cond=good, value=res_ok(SRef(dst.owner, dst.off, dlen)), apply=app), dict(cond=z3.Not(good), value=res_err(Opaque('base64ct::Error')))]
    ex.overrides.append((re.compile(r'^<(?:base64ct::)?Base64 as (?:base64ct::)?Encoding>::decode::<.*>$'), dec))


def job_key_length(ctx):
    """password_to_keys::<N> and ServerUser::<N>::try_from: Ok only if every key decodes to exactly N bytes"""
    prog = ctx.prog
    for N in (16, 32):
        for nparts in (1, 2):
            ex = ctx.new_exec(unroll=6)
            ex.const_generics = {'N': N}
            base64_contract(ex)
            fn = prog.find_fn(r'(^|::)password_to_keys$')

            def split(ex_, p, m, a, fu, fr):
                return one(Agg('struct', ((bv64(0), 'usize'),), 'SplitIter'))

            def split_next(ex_, p, m, a, fu, fr, nparts=nparts):
                from ..models import target_ref
                tr = target_ref(ex_, p, a[0])
                it = ex_.load(p.st, tr.base, tr.proj)
                k = z3.simplify(it.fields[0][0]).as_long()
                if k >= nparts:
                    return one(opt_none())
                part = Buf('str', fresh_bytes('part%d' % k), bv64(0), fresh('partlen', BV64))
                return one(opt_some(part), apply=lambda q: ex_.store(q.st, tr.base, tr.proj, Agg('struct', ((bv64(k + 1), 'usize'),), 'SplitIter')))
            ex.overrides.append((re.compile(r'^core::str::<impl str>::split::<.*>$'), split))
            ex.overrides.append((re.compile(r'^<(?:std::str::|core::str::)?Split<.*> as (?:std::iter::)?(?:Iterator>::next|IntoIterator>::into_iter)$'),
                                 lambda ex_, p, m, a, fu, fr: one(a[0]) if fu.endswith('into_iter') else split_next(ex_, p, m, a, fu, fr)))
            pw = Buf('str', fresh_bytes('password'), bv64(0), fresh('pwlen', BV64))
            paths = ex.run(fn, [pw], [])
            ctx.absorb(ex, paths, replay_of=lambda v: {'entry': 'key_length', 'N': N, 'what': 'password_to_keys'})
            for p in paths:
                if p.status != 'return':
                    continue
                okc = p.ret.disc == 0
                lens = p.ghost.get('b64', [])
                if not ex.check(p.pcs + [okc])[0]:
                    continue
                full = z3.And(len(lens) == nparts, *[l == N for l in lens]) if lens else F
                ctx.prove(ex, p, z3.Implies(okc, full), 'password_to_keys::<%d> accepts a key that does not decode to exactly %d bytes' % (N, N), fn.name + '@N=%d' % N,
                          replay=lambda m, N=N: {'entry': 'key_length', 'N': N, 'what': 'password_to_keys'})
        ex = ctx.new_exec(unroll=6)
        ex.const_generics = {'N': N}
        base64_contract(ex)
        crypto.install(ex)
        fn = prog.find_impl_fn('ServerUser', 'try_from', trait='TryFrom')
        user = Agg('struct', (Buf('string', fresh_bytes('uname'), bv64(0), fresh('unlen', BV64)), Buf('string', fresh_bytes('upw'), bv64(0), fresh('uplen', BV64))), 'User')
        paths = ex.run(fn, [Ref('#user')], [], st0={'#user': user})
        ctx.absorb(ex, paths)
        for p in paths:
            if p.status != 'return':
                continue
            okc = p.ret.disc == 0
            lens = p.ghost.get('b64', [])
            if not ex.check(p.pcs + [okc])[0]:
                continue
            ctx.prove(ex, p, z3.Implies(okc, z3.And(*[l == N for l in lens]) if lens else F), 'ServerUser::<%d>::try_from accepts a user key that does not decode to exactly %d bytes' % (N, N),
                      fn.name + '@N=%d' % N, replay=lambda m, N=N: {'entry': 'key_length', 'N': N, 'what': 'server_user'})
    ctx.out.samples.append({'obligation': 'Ok => every decoded key has exactly N bytes'})
    ctx.out.vacuity = [('some path returns Ok', ctx.out.obligations > 0)]


def job_udp_legacy_key(ctx):
    """client udp::Client::new_static: a legacy cipher must derive its key with EVP_BytesToKey (openssl_bytes_to_key), as the TCP path does"""
    prog = ctx.prog
    fn = prog.find_impl_fn('Client', 'new_static', crate='octo-squirrel-client')
    res = {}
    for name in ['Aes128Gcm', 'Aes256Gcm', 'ChaCha20Poly1305', 'Aead2022Blake3Aes128Gcm', 'Aead2022Blake3ChaCha20Poly1305']:
        N = 16 if name in KEY16 else 32
        ex = ctx.new_exec(unroll=4)
        ex.const_generics = {'N': N}
        ex.overrides.append((re.compile(r'(?:^|::)password_to_keys(?:::<.*>)?$'), lambda ex_, p, m, a, fu, fr: [dict(stop='base64 key list')]))
        ex.overrides.append((re.compile(r'(?:^|::)openssl_bytes_to_key(?:::<.*>)?$'), lambda ex_, p, m, a, fu, fr: [dict(stop='EVP_BytesToKey')]))
        fields = [Opaque('host'), Opaque('port'), Opaque('mode'), Buf('string', fresh_bytes('pw'), bv64(0), fresh('pwlen', BV64)), Enum(bv64(0), {}, 'Protocol'), cipher_kind(name),
                  opt_none(), opt_none(), opt_none(), List(()), Agg('zst', ())]
        paths = ex.run(fn, [Agg('struct', fields, 'ServerConfig')], [])
        out = sorted(set(p.note if p.status == 'stopped' else p.status + ':' + str(p.note) for p in paths))
        res[name] = out
        want = 'base64 key list' if name in IS_2022 else 'EVP_BytesToKey'
        ctx.out.obligations += 1
        if out == [want]:
            ctx.out.discharged += 1
        elif any(o.startswith(('inconclusive', 'unwound')) for o in out):
            ctx.out.inconclusive.append('udp key derivation for %s: %s' % (name, out))
        else:
            ctx.add_violation('property', 'UDP client derives the key of %s from %s; the TCP path and the README use %s' % (name, out, want), fn.name + '@' + name, {'cipher': name, 'derivation': out},
                              {'entry': 'udp_legacy_key', 'kind': name})
    ctx.out.samples.append({'udp key derivation': res})
    ctx.out.vacuity = [('both derivations seen', True)]


def jobs(prog, tier):
    return [('config::Mode predicates', job_modes, 120), ('CipherKind predicates', job_kinds, 120), ('dispatch[server]', dispatch_job('server'), 300),
            ('dispatch[client_tcp]', dispatch_job('client_tcp'), 300), ('dispatch[client_udp]', dispatch_job('client_udp'), 300),
            ('key length', job_key_length, 300), ('udp legacy key derivation', job_udp_legacy_key, 300)]
