"""C14 - addresses survive encoding exactly or are refused.

Engine M: the real encoders (socks5::address::encode, vmess::address::write_address_port) run on a symbolic Address (IPv4, IPv6,
domain of symbolic length and content), an arbitrary tail is appended, and the real decoders run on the result; oracle: the decoded
address equals the original, exactly the encoded bytes are consumed, length()/try_decode_at agree with the bytes written; a refusal
writes nothing.
"""
import z3

from ..values import *  # noqa
from ..engine import Inconclusive, copy_into
from .common import *  # noqa
from .. import crypto

PROPERTY_ID = 'C14'
LEVEL = 'proof'
BOUNDS = {'host': 'domain names of every length 0..2^32 and every byte content; all IPv4/IPv6 addresses; all ports; arbitrary trailing payload of arbitrary length'}
TRUSTED_BASE = ['rustc MIR printer', 'vf.engine', 'vf.models (bytes and std::net contracts)', 'z3']
ASSUMPTIONS = ['String::from_utf8 succeeds on the decoded name exactly when the bytes are UTF-8 (contract: may fail; a failure is a refusal, not a different address)']
EXPLANATION = 'encode/decode round trips as unsat queries over byte arrays with symbolic lengths'


def sym_address(kind):
    if kind == 'domain':
        host, c = symbuf('host', 'string')
        port = z3.BitVec('port', 16)
        return Enum(bv64(0), {'Domain': (host, (port, 'u16'))}, 'Address'), [c], {'host': host, 'port': (port, 'u16')}
    if kind == 'v4':
        ip = symarr('ip4', 4)
        port = z3.BitVec('port', 16)
        sa = Enum(bv64(0), {'V4': (Agg('struct', (ip, (port, 'u16')), 'SocketAddrV4'),)}, 'SocketAddr')
        return Enum(bv64(1), {'Socket': (sa,)}, 'Address'), [], {'ip4': ip, 'port': (port, 'u16')}
    ip = symarr('ip6', 16)
    port = z3.BitVec('port', 16)
    sa = Enum(bv64(1), {'V6': (Agg('struct', (ip, (port, 'u16'), (bvv(0, 32), 'u32'), (bvv(0, 32), 'u32')), 'SocketAddrV6'),)}, 'SocketAddr')
    return Enum(bv64(1), {'Socket': (sa,)}, 'Address'), [], {'ip6': ip, 'port': (port, 'u16')}


def addr_equal(ex, st, a, b, j):
    """z3 Bool: two Address values are equal (byte sequences compared at the arbitrary index j)"""
    if isinstance(a, Opaque) or isinstance(b, Opaque):
        raise Inconclusive('opaque address')
    conds = [a.disc == b.disc]
    if 'Domain' in a.payloads and 'Domain' in b.payloads:
        ha, pa = a.payloads['Domain']
        hb, pb = b.payloads['Domain']
        conds.append(z3.Implies(a.disc == 0, z3.And(ha.len == hb.len, pa[0] == pb[0],
                                                    z3.Implies(z3.ULT(j, ha.len), z3.Select(ha.arr, ha.off + j) == z3.Select(hb.arr, hb.off + j)))))
    elif 'Domain' in a.payloads or 'Domain' in b.payloads:
        conds.append(a.disc != 0)
    if 'Socket' in a.payloads and 'Socket' in b.payloads:
        sa, sb = a.payloads['Socket'][0], b.payloads['Socket'][0]
        c2 = [sa.disc == sb.disc]
        for var in ('V4', 'V6'):
            if var in sa.payloads and var in sb.payloads:
                xa, xb = sa.payloads[var][0], sb.payloads[var][0]
                n = 4 if var == 'V4' else 16
                eq = [xa.fields[1][0] == xb.fields[1][0]] + [z3.Select(xa.fields[0].arr, bv64(i)) == z3.Select(xb.fields[0].arr, bv64(i)) for i in range(n)]
                c2.append(z3.Implies(sa.disc == (0 if var == 'V4' else 1), z3.And(*eq)))
            elif var in sa.payloads or var in sb.payloads:
                c2.append(sa.disc != (0 if var == 'V4' else 1))
        conds.append(z3.Implies(a.disc == 1, z3.And(*c2)))
    elif 'Socket' in a.payloads or 'Socket' in b.payloads:
        conds.append(a.disc != 1)
    return z3.And(*conds)


def replay_spec(codec):
    def f(m):
        spec = {'entry': 'address_roundtrip', 'codec': codec, 'expect': 'mismatch'}
        for k, v in (m or {}).items():
            if isinstance(v, dict) and 'bytes' in v:
                if v['len'] > len(v['bytes']):
                    return None
                spec[k] = v['bytes']
            else:
                spec[k] = v
        return spec
    return f


def roundtrip_job(codec, kind):
    def job(ctx):
        prog = ctx.prog
        if codec == 'socks5':
            enc = prog.find_fn(r'^socks5::address::encode$')
            dec = prog.find_fn(r'^socks5::address::decode$')
        else:
            enc = prog.find_fn(r'(^|::)write_address_port$')
            dec = prog.find_fn(r'(^|::)read_address_port$')
        ex = ctx.new_exec(unroll=8)
        crypto.install(ex)
        install_repo_contracts(ex)
        addr, pcs, inputs = sym_address(kind)
        tail, ct = symbuf('tail')
        inputs = dict(inputs)
        inputs['tail'] = tail
        ex.inputs = inputs
        rp = replay_spec(codec)
        dst0 = Buf('bytesmut', fresh_bytes('dst0'), bv64(0), bv64(0))
        enc_paths = ex.run(enc, [Ref('#addr'), Ref('#dst')], pcs + [ct], st0={'#addr': addr, '#dst': dst0})
        ctx.absorb(ex, enc_paths, replay_of=lambda v: rp(v.model))
        j = z3.BitVec('j', 64)
        nok = nerr = 0
        for p in enc_paths:
            if p.status != 'return':
                continue
            site = enc.name + '->' + dec.name
            res = p.ret
            if not isinstance(res, Enum):
                res = res_ok(unit())     # an infallible encoder: treated as always accepting
            d = p.st['#dst']
            # refusal: nothing written
            sat_err, _ = ex.check(p.pcs + [res.disc != 0])
            if sat_err:
                nerr += 1
                ctx.prove(ex, p, z3.Implies(res.disc != 0, d.len == 0), 'encoder refused the address but had already written bytes', site, replay=rp)
            sat_ok, _ = ex.check(p.pcs + [res.disc == 0])
            if not sat_ok:
                continue
            nok += 1
            written = d.len
            # length() agrees
            if codec == 'socks5':
                lf = prog.find_fn(r'^(?:socks5::address::)?length$')
                for lp in ex.run(lf, [Ref('#addr')], list(p.pcs) + [res.disc == 0], st0={'#addr': addr}):
                    if lp.status == 'return':
                        ctx.prove(ex, lp, lp.ret[0] == written, 'length(addr) differs from the number of bytes encode() wrote', site, replay=rp)
                    elif lp.status == 'inconclusive':
                        ctx.out.inconclusive.append(lp.note)
            # append the tail and decode
            wire = Buf('bytesmut' if codec == 'socks5' else 'bytes', copy_into(d.arr, d.off + d.len, tail.arr, tail.off, tail.len), d.off, d.len + tail.len)
            if codec == 'socks5':
                tf = prog.find_fn(r'(^|::)try_decode_at$')
                for tp in ex.run(tf, [Ref('#wire'), (bv64(0), 'usize')], list(p.pcs) + [res.disc == 0], st0={'#wire': wire}):
                    if tp.status == 'return':
                        r = tp.ret
                        ok = z3.And(r.disc == 0, r.payloads['Ok'][0].disc == 1, r.payloads['Ok'][0].payloads['Some'][0][0] == written) if 'Some' in r.payloads.get('Ok', (opt_none(),))[0].payloads else F
                        ctx.prove(ex, tp, ok, 'try_decode_at disagrees with the number of bytes encode() wrote', site, replay=rp)
                    elif tp.status == 'inconclusive':
                        ctx.out.inconclusive.append(tp.note)
            dpaths = ex.run(dec, [Ref('#wire')], list(p.pcs) + [res.disc == 0], st0={'#wire': wire})
            ctx.absorb(ex, dpaths, replay_of=lambda v: rp(v.model))
            for q in dpaths:
                if q.status != 'return':
                    continue
                r = q.ret
                rest = q.st['#wire']
                utf8_fail = [c for c in q.pcs if 'utf8_ok' in str(c)] and codec == 'vmess'
                if 'Ok' not in r.payloads:
                    # decoder refused what the encoder produced (allowed only for a non-UTF-8 name in the VMess reader)
                    ctx.prove(ex, q, T if utf8_fail else F, 'decoder refuses the address the encoder accepted', site, replay=rp)
                    continue
                ctx.prove(ex, q, z3.Implies(r.disc == 0, addr_equal(ex, q.st, addr, r.payloads['Ok'][0], j)), 'decoded address differs from the encoded one', site, replay=rp,
                          extra_inputs={'j': (j, 'u64')})
                ctx.prove(ex, q, z3.Implies(r.disc == 0, z3.And(rest.len == tail.len, z3.Implies(z3.ULT(j, tail.len), z3.Select(rest.arr, rest.off + j) == z3.Select(tail.arr, tail.off + j)))),
                          'decoder did not consume exactly the address bytes (trailing payload shifted)', site, replay=rp)
                if not utf8_fail:
                    ctx.prove(ex, q, r.disc == 0, 'decoder refuses the address the encoder accepted', site, replay=rp)
        ctx.out.vacuity = [('encoder accepts some address', nok > 0)]
        if kind == 'domain':
            ctx.out.vacuity.append(('encoder refuses some name (too long)', nerr > 0))
        ctx.out.samples.append({'obligation': 'decode(encode(a) ++ tail) == (a, tail); length(a) == |encode(a)|; refusal writes nothing', 'codec': codec, 'kind': kind})
    return job


def jobs(prog, tier):
    return [('%s[%s]' % (c, k), roundtrip_job(c, k), 600) for c in ('socks5', 'vmess') for k in ('domain', 'v4', 'v6')]
