"""C03 - wire format interoperates with the published protocol specifications (structure and limits; see DESIGN.md for what a
solver cannot decide here: byte equality of BLAKE3/HKDF/MD5/AES outputs with an independent implementation).

Two halves, both on the real code with the ideal-AEAD ghost log:
  * sender side: the REAL encoders are executed on a write of symbolic length and content; the sequence of (key identity, nonce,
    plaintext) they seal and the buffer they emit are compared with the layout the specifications prescribe - key derived from
    (pre-shared key, the salt at the front of the stream), nonces 0,1,2,... in sealing order, every length chunk announcing exactly
    the following payload chunk, chunk sizes within the limit the specification imposes on senders (0x3FFF for the AEAD ciphers,
    0xFFFF for 2022), header fields (type, timestamp, request-salt echo, length) in place, concatenated plaintext == address ||
    padding || data, emitted length == salt + sum(chunk + tag);
  * receiver side: streams laid out from the specifications by props/wire.py (an independent sender) are accepted and yield the
    same payload - that half is the C04 check (exact mode, every segmentation) and is not repeated here.
"""
import re
import z3

from ..values import *  # noqa
from ..engine import Inconclusive
from ..models import one, U
from .common import *  # noqa
from .. import crypto, ideal
from . import wire, c05, c14, decoders, c01

PROPERTY_ID = 'C03'
LEVEL = 'proof'
BOUNDS = {'write': 'one application write of symbolic length (AEAD ciphers 0..40000, 2022 0..140000: up to 3 chunks) and arbitrary content, then a second write (1..20000 / 1..70000: up to 2 chunks); more chunks per write are outside', 'address': 'IPv4 (address encodings of all kinds: C14)',
          'identity headers': '0, 1 and 2 identity keys'}
TRUSTED_BASE = ['rustc MIR printer', 'vf.engine', 'vf.ideal (seal log: key identity, nonce, plaintext per AEAD call)', 'specification limits as transcribed in this file', 'z3']
ASSUMPTIONS = ['hash/KDF/AEAD primitives compute what their names say (external crates; known-answer tests of the repository pin them)', 'receiver half: see C04']
EXPLANATION = 'sealed (key, nonce, plaintext) sequence and emitted layout of the real encoders against the specification layout, for every write size'


def le96(x):
    return x


def make_ss_encoder_job(N, kind, mode):
    legacy = not kind.startswith('Aead2022')

    def job(ctx):
        prog = ctx.prog
        case = decoders.ss_tcp_cases(prog, [(N, kind, mode, False, False)])[0]
        ex = c05.base_exec(ctx, N, 8, mode='exact')
        case.setup(ex)
        ex.cut_loops = []
        st0 = dict(case.st0)
        sess = st0['#sess']
        addr, apcs, ains = c14.sym_address('v4')
        ident = sess.fields[1]
        reqsalt = symarr('request_salt', N)
        if mode == 'Server':
            ident = Agg('struct', (ident.fields[0], opt_some(reqsalt), opt_none()), 'Identity')
        st0['#sess'] = Agg('struct', (sess.fields[0], ident, opt_some(addr) if mode == 'Client' else opt_none()), 'Session')
        own_salt = ident.fields[0].arr
        psk = st0['#ctx'].fields[0].arr
        item, ci = symbuf('item')
        item2, ci2 = symbuf('item2')
        st0['#dst'] = Buf('bytesmut', fresh_bytes('dst'), bv64(0), bv64(0))
        enc = prog.find_impl_fn('AEADCipherCodec', 'encode', file_part='tcp.rs')
        ex.inputs = {'item': item, 'item2': item2}
        secs = z3.BitVec('clock_secs', 64)
        hi1, hi2 = (40000, 20000) if legacy else (140000, 70000)      # up to 3 + 2 chunks
        pcs = [ci, z3.ULE(item.len, hi1), ci2, z3.UGE(item2.len, 1), z3.ULE(item2.len, hi2), secs >= 0, secs < (1 << 62)] + apcs
        paths = ex.run(enc, [Ref('#self'), Ref('#ctx'), Ref('#sess'), item, Ref('#dst')], pcs, st0=st0)
        second = []
        for p in paths:
            if p.status == 'return' and ex.check(p.pcs + [p.ret.disc == 0])[0]:
                q = p.fork()
                q.status, q.ret = p.status, p.ret
                q.pcs.append(p.ret.disc == 0)
                second += ex.resume(q, enc, [Ref('#self'), Ref('#ctx'), Ref('#sess'), item2, Ref('#dst')])
        site = enc.name + '@sealed'
        kid_ref = wire.ss_kid(legacy, psk, N, own_salt)
        limit = 0x3fff if legacy else 0xffff
        nok = 0

        def rp(m):
            return {'entry': 'ss_chunk_limit', 'N': N, 'kind': kind, 'mode': mode, 'len': (m.get('item') or {}).get('len', 0), 'limit': limit}
        for p in paths + second:
            # engine-level violations in the encoder (slice / capacity preconditions): replayed on the real encoder with 1..17 spare bytes
            ctx.absorb(ex, [p], replay_of=lambda v: {'entry': 'ss_encode_capacity', 'N': N, 'kind': kind, 'mode': mode})
            if p.status != 'return':
                continue
            okc = p.ret.disc == 0
            if not ctx.prove(ex, p, okc, 'the encoder refuses an application write', site):
                continue
            ents = p.ghost.get('sealed', [])
            nok += 1
            dst = p.st['#dst']
            # key and nonce discipline of the stream
            for i, e in enumerate(ents):
                ctx.prove(ex, p, ideal.kid_eq(e.kid, kid_ref), 'chunk %d is sealed under a key that is not derived from (pre-shared key, salt of this stream) as specified' % i, site)
                ctx.prove(ex, p, e.nonce == z3.BitVecVal(i, 96) if e.nonce.size() == 96 else F, 'chunk %d is sealed with nonce != %d (little-endian counter from 0)' % (i, i), site)
            # framing: [header chunks for 2022][len][payload][len][payload]...
            hdr = 0 if legacy else 2
            body = ents[hdr:]
            ctx.prove(ex, p, T if len(body) % 2 == 0 else F, 'length and payload chunks do not alternate', site)
            total = bv64(N)
            for e in ents:
                total = total + e.pt[2] + bv64(16)
            ctx.prove(ex, p, dst.len == total, 'emitted bytes != salt + sum(chunk + tag)', site)
            ctx.prove(ex, p, z3.And(*[z3.Select(dst.arr, dst.off + bv64(i)) == z3.Select(own_salt, bv64(i)) for i in range(N)]), 'the stream does not start with the salt the key was derived from', site)
            data = []
            if not legacy:
                fixed, var = ents[0], ents[1]
                fa, fo, fl = fixed.pt
                want_len = 1 + 8 + (N if mode == 'Server' else 0) + 2
                secs = z3.BitVec('clock_secs', 64)
                conds = [fl == want_len, z3.Select(fa, fo) == (0 if mode == 'Client' else 1), z3.Concat(*[z3.Select(fa, fo + bv64(1 + i)) for i in range(8)]) == secs]
                pos = 9
                if mode == 'Server':
                    conds += [z3.Select(fa, fo + bv64(9 + i)) == z3.Select(reqsalt.arr, bv64(i)) for i in range(N)]
                    pos += N
                conds.append(z3.ZeroExt(48, z3.Concat(z3.Select(fa, fo + bv64(pos)), z3.Select(fa, fo + bv64(pos + 1)))) == var.pt[2])
                ctx.prove(ex, p, z3.And(*conds), 'fixed-length header is not [type, timestamp, (request salt,) length of the variable-length header]', site)
                ctx.prove(ex, p, z3.ULE(var.pt[2], 0xffff), 'variable-length header chunk exceeds 0xFFFF bytes', site)
                data.append(var.pt)
            for k in range(0, len(body) - 1, 2):
                le, pe = body[k], body[k + 1]
                la, lo, ll = le.pt
                ctx.prove(ex, p, z3.And(ll == 2, z3.ZeroExt(48, z3.Concat(z3.Select(la, lo), z3.Select(la, lo + 1))) == pe.pt[2]),
                          'a length chunk does not announce the size of the payload chunk that follows it', site)
                ctx.prove(ex, p, z3.And(z3.UGE(pe.pt[2], 1), z3.ULE(pe.pt[2], limit)),
                          'payload chunk larger than the sender limit of the specification (0x%X bytes)' % limit, site, replay=rp)
                data.append(pe.pt)
            # concatenated plaintext: [address ||] [padding length, padding ||] data of the write(s)
            writes = [item] + ([item2] if any(p is s for s in second) else [])
            if not plaintext_structural(ctx, ex, p, data, writes, mode, legacy, ains, site):
                plaintext_generic(ctx, ex, p, data, writes, mode, legacy, ains, site, item)
        ctx.out.vacuity = [('the encoder produced streams', nok >= 2), ('a second write was encoded', len(second) > 0)]
        ctx.out.samples.append({'encoder': 'ss tcp::AEADCipherCodec::encode', 'cipher': kind, 'mode': mode, 'paths': len(paths) + len(second)})
    return job


def plaintext_structural(ctx, ex, p, data, writes, mode, legacy, ains, site):
    """the sealed chunks are consecutive windows of the message buffers, and those buffers are [address, padding,] write:
    only offsets and lengths go to the solver.  Returns False when the structure is not recognised (generic oracle then)."""
    from ..models import PIECES
    groups = []
    for (a, o, l) in data:
        if groups and z3.eq(groups[-1][0], a):
            groups[-1][1].append((o, l))
        else:
            groups.append((a, [(o, l)]))
    if len(groups) != len(writes):
        return False
    for gi, ((arr, wins), w) in enumerate(zip(groups, writes)):
        tot = bv64(0)
        conds = []
        for k, (o, l) in enumerate(wins):
            if k:
                conds.append(o == wins[k - 1][0] + wins[k - 1][1])
            tot = tot + l
        hist = PIECES.get(arr.get_id())
        if z3.eq(arr, w.arr):
            conds += [wins[0][0] == w.off, tot == w.len]
            head_ok = (gi > 0 or mode == 'Server')
            if not head_ok:
                return False
        else:
            if hist is None or not z3.eq(hist[0], arr) or not hist[2]:
                return False
            pa, po, pl = hist[2][-1]
            if not z3.eq(pa, w.arr):
                return False
            headlen = bv64(0)
            for (_a, _o, ln) in hist[2][:-1]:
                headlen = headlen + ln
            conds += [po == w.off, pl == w.len, wins[0][0] == hist[1], tot == headlen + w.len]
            if gi == 0 and mode == 'Client':
                ip = ains['ip4']
                base = hist[1]
                conds += [z3.Select(arr, base) == 1] + [z3.Select(arr, base + bv64(1 + i)) == z3.Select(ip.arr, bv64(i)) for i in range(4)]
                conds.append(z3.Concat(z3.Select(arr, base + 5), z3.Select(arr, base + 6)) == ains['port'][0])
                if legacy:
                    conds.append(headlen == 7)
                else:
                    padl = z3.Concat(z3.Select(arr, base + 7), z3.Select(arr, base + 8))
                    conds += [headlen == bv64(9) + z3.ZeroExt(48, padl), z3.ULE(padl, 900), z3.Implies(w.len != 0, padl == 0)]
            else:
                conds.append(headlen == 0)
        ctx.prove(ex, p, z3.And(*conds), 'sealed plaintext is not [address, padding length, padding,] followed by exactly the bytes written, in order', site)
    return True


def plaintext_generic(ctx, ex, p, data, writes, mode, legacy, ains, site, item):
    arr, tot = c05.concat_view(ex, p, [Buf('slice', a, o, l) for (a, o, l) in data])
    wl = bv64(0)
    for w in writes:
        wl = wl + w.len
    j = fresh('j', BV64)
    if mode == 'Client':
        alen = bv64(7)
        head = alen if legacy else alen + 2 + z3.ZeroExt(48, z3.Concat(z3.Select(arr, alen), z3.Select(arr, alen + 1)))
    else:
        head = bv64(0)
    exp = bvv(0, 8)
    base = bv64(0)
    for w in writes:
        exp = z3.If(z3.And(z3.UGE(j, base), z3.ULT(j - base, w.len)), z3.Select(w.arr, w.off + (j - base)), exp)
        base = base + w.len
    ctx.prove(ex, p, z3.And(tot == head + wl, z3.Implies(z3.ULT(j, wl), z3.Select(arr, head + j) == exp)), 'sealed plaintext is not [address, padding,] followed by exactly the bytes written', site)


def jobs(prog, tier):
    js = []
    for (N, kind) in ((16, 'Aes128Gcm'), (32, 'Aes256Gcm'), (32, 'ChaCha20Poly1305'), (16, 'Aead2022Blake3Aes128Gcm'), (32, 'Aead2022Blake3Aes256Gcm'), (32, 'Aead2022Blake3ChaCha20Poly1305')):
        for mode in ('Client', 'Server'):
            js.append(('ss tcp encoder[N=%d,%s,%s]' % (N, kind, mode), make_ss_encoder_job(N, kind, mode), 900))
    for (N, kind) in ((16, 'Aead2022Blake3Aes128Gcm'), (32, 'Aead2022Blake3Aes256Gcm')):
        for nkeys in (1, 2, 3):
            js.append(('ss2022 identity headers[N=%d,%d identity keys]' % (N, nkeys), make_eih_job(N, kind, nkeys), 300))
    return js


# --------------------------------------------------------------------------- Shadowsocks 2022 identity headers (SIP023)
def make_eih_job(N, kind, nkeys):
    """aead_2022::tcp::with_eih for a chain of `nkeys` identity keys followed by the user key: header i must be
    AES-ECB(identity_subkey(iPSK_i, salt), BLAKE3(next key)[0..16]), in order, and nothing else is written"""
    def job(ctx):
        prog = ctx.prog
        ex = ctx.new_exec(unroll=nkeys + 3)
        ex.const_generics = {'N': N}
        fn = prog.find_fn(r'aead_2022::tcp::with_eih$')
        derive, hashes, ecbs = [], [], []

        def concat(ex_, p, m, a, fu, fr):
            lst = ex_.deref_all(p.st, a[0]) if isinstance(a[0], Ref) else a[0]
            arr, total = z3.K(BV64, bvv(0, 8)), bv64(0)
            from ..engine import copy_into
            for it in lst.items:
                ia, io, il = ex_.bytes_view(p.st, it)
                arr = copy_into(arr, total, ia, io, il)
                total = z3.simplify(total + il)
            return one(Buf('vec', arr, bv64(0), total))

        def derive_key(ex_, p, m, a, fu, fr):
            ma, mo, ml = ex_.bytes_view(p.st, a[1])
            out = fresh_bytes('idsubkey')
            derive.append((out, ma, mo, ml))
            return one(Arr(out, 'u8', 32))

        def b3hash(ex_, p, m, a, fu, fr):
            ia, io, il = ex_.bytes_view(p.st, a[0])
            out = fresh_bytes('b3hash')
            hashes.append((out, ia, io, il))
            return one(Agg('struct', (Arr(out, 'u8', 32),), 'Hash'))

        def ecb(ex_, p, m, a, fu, fr):
            ka, ko, kl = ex_.bytes_view(p.st, a[0])
            s = ex_.as_sref(p.st, a[1])
            ba, bo, bl = ex_.bytes_view(p.st, s)
            out = fresh_bytes('eih')
            ent = (ka, ko, [z3.Select(ba, bo + bv64(i)) for i in range(16)], out)

            def app(q):
                ex_.bytes_fill(q.st, s, out, bv64(0), bv64(16))
                q.ghost.setdefault('eih', []).append(ent)
            return one(U(), apply=app)
        crypto.install(ex)
        ex.overrides[:0] = [(re.compile(r'^std::slice::<impl \[&\[u8\]\]>::concat::<u8>$'), concat), (re.compile(r'^(?:blake3::)?derive_key$'), derive_key),
                         (re.compile(r'^(?:blake3::)?hash$'), b3hash), (re.compile(r'Aes(128|256)EcbNoPadding::encrypt$'), ecb)]
        key = symarr('userkey', N)
        iks = [symarr('ipsk%d' % i, N) for i in range(nkeys)]
        salt = symarr('salt', N)
        dst = Buf('bytesmut', fresh_bytes('dst'), bv64(0), bv64(0))
        st0 = {'#kind': cipher_kind(kind), '#key': key, '#iks': List(tuple(iks)), '#salt': salt, '#dst': dst}
        ex.inputs = {'userkey': key, 'salt': salt}
        ex.inputs.update({'ipsk%d' % i: iks[i] for i in range(nkeys)})
        paths = ex.run(fn, [Ref('#kind'), Ref('#key'), Ref('#iks'), Ref('#salt'), Ref('#dst')], [], st0=st0)
        ctx.absorb(ex, paths)
        site = fn.name + '@headers'

        def rp(m):
            return {'entry': 'eih_chain', 'N': N, 'kind': kind, 'nkeys': nkeys}
        done = 0
        chain = iks + [key]
        for p in paths:
            if p.status != 'return':
                continue
            done += 1
            got = p.ghost.get('eih', [])
            ctx.prove(ex, p, T if len(got) == nkeys else F, '%d identity headers are written for a chain of %d identity keys' % (len(got), nkeys), site, replay=rp)
            out = p.st['#dst']
            ctx.prove(ex, p, out.len == 16 * nkeys, 'identity headers occupy %d x 16 bytes' % nkeys, site, replay=rp)
            for i, (ka, ko, block, outarr) in enumerate(got[:nkeys]):
                # key of header i: derive_key("... identity subkey", iPSK_i || salt)
                dk = [d for d in derive if z3.eq(d[0], ka)]
                cond = F
                if dk:
                    _o, ma, mo, ml = dk[0]
                    cond = z3.And(ml == 2 * N, *([z3.Select(ma, mo + bv64(j)) == z3.Select(iks[i].arr, bv64(j)) for j in range(N)] + [z3.Select(ma, mo + bv64(N + j)) == z3.Select(salt.arr, bv64(j)) for j in range(N)]))
                ctx.prove(ex, p, cond, 'identity header %d is not encrypted under the identity sub-key of identity key %d (BLAKE3 derive_key of iPSK_%d || salt)' % (i, i, i), site, replay=rp)
                # plaintext of header i: first 16 bytes of BLAKE3(next key in the chain)
                hk = F
                for (ho, ia, io, il) in hashes:
                    hk = z3.Or(hk, z3.And(il == N, *([z3.Select(ia, io + bv64(j)) == z3.Select(chain[i + 1].arr, bv64(j)) for j in range(N)] + [block[j] == z3.Select(ho, bv64(j)) for j in range(16)])))
                ctx.prove(ex, p, hk, 'identity header %d does not carry the first 16 bytes of BLAKE3(key %d of the chain)' % (i, i + 1), site, replay=rp)
                ctx.prove(ex, p, z3.And(*[z3.Select(out.arr, out.off + bv64(16 * i + j)) == z3.Select(outarr, bv64(j)) for j in range(16)]), 'identity header %d is not written at offset %d' % (i, 16 * i), site, replay=rp)
        ctx.out.vacuity = [('with_eih returns', done > 0)]
        ctx.out.samples.append({'function': fn.name, 'identity_keys': nkeys, 'cipher': kind})
    return job
