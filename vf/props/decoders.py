"""Catalogue of network-facing decoders and their symbolic start states (shared by C04, C05, C06, C07, C13).

A Case is one (decoder, state class) pair: the decoder's own fields are symbolic within the class (so one `decode` step
from this state covers every reachable state of the class), the input buffer is an arbitrary byte string of arbitrary
length.  `replay(model)` turns a solver model into a spec for /verif/replay (entry `decode`).
"""
import re
import z3

from ..values import *  # noqa
from ..models import one, U
from .. import crypto
from .common import *  # noqa


class Case:
    def __init__(self, name, fn, args, st0, inputs, pcs=(), setup=None, N=None, unroll=8, replay=None, notes=(), group=''):
        self.name, self.fn, self.args, self.st0, self.inputs = name, fn, args, st0, inputs
        self.pcs, self.setup, self.N, self.unroll, self.replay, self.notes, self.group = list(pcs), setup, N, unroll, replay, list(notes), group

    def new_exec(self, ctx, mode='havoc'):
        ex = ctx.new_exec(unroll=self.unroll)
        if self.N:
            ex.const_generics = {'N': self.N}
        crypto.install(ex, mode)
        install_repo_contracts(ex)
        nonce_generator_contract(ex)
        udp_cipher_cache_contract(ex)
        ecb_contract(ex)
        user_manager_contract(ex)
        if self.setup:
            self.setup(ex)
        ex.inputs = dict(self.inputs)
        return ex

    def run(self, ctx, mode='havoc'):
        ex = self.new_exec(ctx, mode)
        paths = ex.run(self.fn, self.args, self.pcs, st0=dict(self.st0))
        return ex, paths


def _spec(decoder, cfg):
    def f(model):
        m = model or {}
        spec = {'entry': 'decode', 'decoder': decoder, 'cfg': cfg, 'expect': 'panic'}
        src = m.get('src')
        if isinstance(src, dict):
            spec['src'] = src['bytes']
            if src['len'] > len(src['bytes']):
                return None
        spec['opens'] = m.get('#opens', [])
        for k in ('#aead_vec', '#xof', '#ecb'):
            if k in m:
                spec[k[1:]] = m[k]
        for k, v in m.items():
            if k == '#clock_secs':
                spec['clock'] = v
            elif k.startswith('#clock_'):
                pass
            elif k not in ('src', '#opens', '#aead_vec', '#xof', '#ecb') and not isinstance(v, (dict, list)):
                spec.setdefault('vars', {})[k] = v
        return spec
    return f


def socks5_cases(prog):
    out = []
    b, c = symbuf('src')
    fn = prog.find_fn(r'^socks5::address::decode$')
    out.append(Case('socks5::address::decode', fn, [Ref('#src')], {'#src': b}, {'src': b}, [c], replay=_spec('socks5_address', {}), group='socks5'))
    for name, key in [('Socks5InitialRequestDecoder', 'initial_request'), ('Socks5CommandRequestDecoder', 'command_request'),
                      ('Socks5InitialResponseDecoder', 'initial_response'), ('Socks5CommandResponseDecoder', 'command_response'), ('Socks5UdpCodec', 'udp')]:
        f = prog.find_impl_fn(name, 'decode', trait='Decoder')
        unroll = 8
        pcs = [c]
        notes = []
        if key == 'initial_request':
            # `for _ in 0..count`: one iteration per announced auth method; bounded per tier by the driver (count <= unroll-2)
            unroll = 12
            pcs = [c, z3.ULE(z3.Select(b.arr, bv64(1)), 8)]
            notes = ['number of announced SOCKS5 auth methods <= 8 (loop unrolling bound; larger counts outside the claim)']
        out.append(Case(name, f, [Ref('#self'), Ref('#src')], {'#src': b, '#self': Agg('struct', (), name)}, {'src': b}, pcs, unroll=unroll,
                        replay=_spec('socks5_' + key, {}), notes=notes, group='socks5'))
    return out


def trojan_cases(prog):
    out = []
    b, c = symbuf('src')
    key = symarr('trojan_key', 28)
    f = prog.find_impl_fn('ServerCodec', 'decode', trait='Decoder', crate='octo-squirrel-server')
    for i, stname in enumerate(['Header', 'Tcp', 'Udp']):
        st0 = {'#src': b, '#self': Agg('struct', (key, Enum(bv64(i), {}, 'CodecState')), 'ServerCodec')}
        out.append(Case('trojan::ServerCodec[%s]' % stname, f, [Ref('#self'), Ref('#src')], st0, {'src': b}, [c],
                        replay=_spec('trojan_server', {'state': stname}), group='trojan'))
    f = prog.find_impl_fn('ClientCodec', 'decode', trait='Decoder', crate='octo-squirrel-client', file_part='trojan.rs:18')
    out.append(Case('trojan::udp::ClientCodec', f, [Ref('#self'), Ref('#src')], {'#src': b, '#self': Opaque('codec')}, {'src': b}, [c],
                    replay=_spec('trojan_client_udp', {}), group='trojan'))
    return out


def ss_chunk_decoder(N, sd_name='sdisc'):
    sd = z3.BitVec(sd_name, 64)
    state = Enum(sd, {'Payload': ((z3.BitVec('plen', 64), 'usize'),)}, 'DecodeState')
    dec = Agg('struct', (ss_authenticator('Aes128Gcm' if N == 16 else 'Aes256Gcm'), state), 'ChunkDecoder')
    pl = z3.BitVec('plen', 64)
    # reachable states only: Payload(len) is set from a 16-bit size plus the tag length
    return dec, [z3.ULE(sd, 1), z3.UGE(pl, 16), z3.ULE(pl, 0xffff + 16)], {'sdisc': (sd, 'u64'), 'plen': (z3.BitVec('plen', 64), 'usize')}


SS_TCP_MATRIX = [
    # N, kind, mode, users(EIH), decoder present
    (16, 'Aes128Gcm', 'Server', False, False), (16, 'Aes128Gcm', 'Client', False, False), (16, 'Aes128Gcm', 'Server', False, True),
    (32, 'ChaCha20Poly1305', 'Server', False, False),
    (16, 'Aead2022Blake3Aes128Gcm', 'Server', False, False), (16, 'Aead2022Blake3Aes128Gcm', 'Client', False, False),
    (16, 'Aead2022Blake3Aes128Gcm', 'Server', True, False), (32, 'Aes256Gcm', 'Client', False, True),
    (32, 'Aead2022Blake3Aes256Gcm', 'Server', False, False), (32, 'Aead2022Blake3Aes256Gcm', 'Client', False, False),
    (32, 'Aead2022Blake3Aes256Gcm', 'Server', True, False),
    (32, 'Aead2022Blake3ChaCha20Poly1305', 'Server', False, False), (32, 'Aead2022Blake3ChaCha20Poly1305', 'Client', False, False),
]


def ss_tcp_cases(prog, matrix=None):
    out = []
    f = prog.find_impl_fn('AEADCipherCodec', 'decode', file_part='tcp.rs')
    for (N, kind, mode, users, dec_some) in (matrix or SS_TCP_MATRIX):
        b, c = symbuf('src')
        st0 = {}
        um = opt_none()
        if users:
            st0['#um'] = Agg('struct', (Opaque('users'),), 'ServerUserManager')
            um = opt_some(Agg('arc', (Ref('#um'),)))
        ctxv = Agg('struct', (symarr('key', N), List(()), cipher_kind(kind), um, Opaque('nonce_cache')), 'Context')
        ident = Agg('struct', (symarr('salt', N), opt_none(), opt_none()), 'Identity')
        sess = Agg('struct', (Enum(bv64(0 if mode == 'Client' else 1), {}, 'Mode'), ident, opt_none()), 'Session')
        inputs = {'src': b}
        pcs = [c]
        if dec_some:
            dec, dpcs, dins = ss_chunk_decoder(N)
            pcs += dpcs
            inputs.update(dins)
            decv = opt_some(dec)
        else:
            decv = opt_none()
        codec = Agg('struct', (opt_none(), decv), 'AEADCipherCodec')
        st0.update({'#self': codec, '#ctx': ctxv, '#sess': sess, '#src': b})
        ucount = z3.BitVec('user_count', 64)

        def setup(ex, users=users, ucount=ucount):
            ex.cut_loops = [('decode_payload', 'bb1')]
            ex.overrides.insert(0, (re.compile(r'Context::<.*>::check_nonce$'), lambda ex_, p, m, a, fu, fr: one((fresh('salt_seen', z3.BoolSort()), 'bool'))))
            ex.overrides.insert(0, (re.compile(r'Context::<.*>::set_nonce$'), lambda ex_, p, m, a, fu, fr: one(U())))
        cfg = {'N': N, 'kind': kind, 'mode': mode, 'users': bool(users), 'decoder': 'some' if dec_some else 'none'}
        name = 'ss::tcp::decode[N=%d,%s,%s%s,%s]' % (N, kind, mode, ',eih' if users else '', 'decoder=Some' if dec_some else 'decoder=None')
        case = Case(name, f, [Ref('#self'), Ref('#ctx'), Ref('#sess'), Ref('#src')], st0, inputs, pcs + ([ucount != 0] if users else []), setup=setup, N=N, unroll=6,
                    replay=_spec('ss_tcp', cfg), group='ss_tcp',
                    notes=['ChunkDecoder::decode_payload loop closed by induction (start state is an arbitrary loop-head state)'] if dec_some else [])
        out.append(case)
    return out


SS_UDP_MATRIX = [
    (16, 'Aes128Gcm', 'Server', False), (32, 'ChaCha20Poly1305', 'Client', False),
    (16, 'Aead2022Blake3Aes128Gcm', 'Server', False), (16, 'Aead2022Blake3Aes128Gcm', 'Client', False), (16, 'Aead2022Blake3Aes128Gcm', 'Server', True),
    (32, 'Aead2022Blake3Aes256Gcm', 'Server', True), (32, 'Aead2022Blake3Aes256Gcm', 'Client', False),
    (32, 'Aead2022Blake3ChaCha20Poly1305', 'Server', False), (32, 'Aead2022Blake3ChaCha20Poly1305', 'Client', False),
    (32, 'Aead2022Blake3ChaCha8Poly1305', 'Server', False),
]


def ss_udp_cases(prog, matrix=None):
    out = []
    f = prog.find_impl_fn('SessionCodec', 'decode', file_part='udp.rs')
    for (N, kind, mode, users) in (matrix or SS_UDP_MATRIX):
        b, c = symbuf('src')
        st0 = {}
        um = opt_none()
        if users:
            st0['#um'] = Agg('struct', (Opaque('users'),), 'ServerUserManager')
            um = opt_some(Agg('arc', (Ref('#um'),)))
        key = Buf('slice', z3.Array('key', BV64, BV8), bv64(0), bv64(N))
        st0['#ik'] = List(())
        ctxv = Agg('struct', (Enum(bv64(0 if mode == 'Client' else 1), {}, 'Mode'), um, key, Ref('#ik')), 'Context')
        codec = Agg('struct', (ctxv, Agg('struct', (cipher_kind(kind),), 'AEADCipherCodec')), 'SessionCodec')
        st0.update({'#self': codec, '#src': b})
        ucount = z3.BitVec('user_count', 64)
        cfg = {'N': N, 'kind': kind, 'mode': mode, 'users': bool(users)}
        name = 'ss::udp::decode[N=%d,%s,%s%s]' % (N, kind, mode, ',eih' if users else '')
        out.append(Case(name, f, [Ref('#self'), Ref('#src')], st0, {'src': b}, [c] + ([ucount != 0] if users else []), N=N, unroll=6,
                        replay=_spec('ss_udp', cfg), group='ss_udp'))
    return out


def all_cases(prog, tier='quick'):
    cases = socks5_cases(prog) + trojan_cases(prog) + ss_tcp_cases(prog) + ss_udp_cases(prog)
    try:
        from .vmess_cases import vmess_cases
        cases += vmess_cases(prog, tier)
    except ImportError:
        pass
    return cases
