"""C13 - local SOCKS5 and HTTP handshakes yield exactly the requested target.

Engine M.
SOCKS5: the wire image of a well-formed request is written down from RFC 1928 as a symbolic byte array (independent of the repo's
own encoders): greeting [5, n, methods] and command request [5, cmd, rsv, atyp, addr, port] for the three address types, a domain of
every length 1..255 and content, any port, followed by an arbitrary tail (the first tunnel bytes).  The real decoders must
 (a) on the complete request: return the requested command and address and consume exactly the request bytes (tail untouched);
 (b) on every strict prefix (every segmentation point, symbolic): return Ok(None) and leave the buffer untouched - the framed
     reader then reads more and calls again with the longer buffer (the decoders are stateless unit structs), so (a)+(b) give
     "however it is split across TCP segments".
The replies: Socks5InitialResponse / Socks5CommandResponse encoders emit [5, method] and [5, status, 0, address].
HTTP: the MIR of recognize_http(method, target) with bounded `str` contracts (vf.strmodel) on every ASCII target of length <= L,
against a reference grammar stated over the same symbolic bytes (the decomposition points are extra universally quantified
variables constrained by the grammar, which is deterministic): scheme "://" host [":" port] ["/" path] ["?" query] with reg-name or
bracketed-IPv6 hosts, paths and queries containing ':', '/', '?', "://"; CONNECT host ":" port.  Oracle: accepted, kind (Http /
Https), host bytes and port are exactly the named ones (80 by default); a target that names no host (no scheme for a non-CONNECT
method, or an empty host) is refused; no str slice can panic.
"""
import z3

from ..values import *  # noqa
from ..engine import Inconclusive, copy_into
from .common import *  # noqa
from .c14 import addr_equal
from .. import crypto, strmodel

PROPERTY_ID = 'C13'
LEVEL = 'proof'
BOUNDS = {'socks5': 'domain length 1..255 (all), all IPv4/IPv6/ports, arbitrary tail of arbitrary length; every cut point of the request; greeting with <= 8 methods',
          'http': 'request targets of every length <= L over printable ASCII (L = 20 quick, 28 thorough), methods of length <= 8; longer targets outside'}
TRUSTED_BASE = ['rustc MIR printer', 'vf.engine', 'vf.models', 'vf.strmodel (bounded contracts of str::find/rfind/ends_with/parse, from the std documentation)', 'z3']
ASSUMPTIONS = ['request targets are ASCII (httparse admits nothing else in a request target), so every index is a char boundary',
               'socket-facing steps (sniffing by peek, the single 1024-byte read after CONNECT, FramedRead::into_inner between the two SOCKS5 decoders, the 30 s timeout) are async shell code outside the claim',
               'String::from_utf8 succeeds on ASCII names (contract: may fail; failing paths on ASCII content are contract artefacts and skipped)']
EXPLANATION = 'handshake parsers against RFC 1928 wire images and a reference URI grammar, as unsat queries'


# ----------------------------------------------------------------------------------------------- SOCKS5
def socks5_wire(kind):
    """(array, request length term, address value, pcs, inputs) of a well-formed command request written from RFC 1928"""
    cmd = z3.BitVec('cmd', 8)
    rsv = z3.BitVec('rsv', 8)
    port = z3.BitVec('port', 16)
    w = z3.Array('wire0', BV64, BV8)
    w = z3.Store(z3.Store(z3.Store(w, bv64(0), bvv(5, 8)), bv64(1), cmd), bv64(2), rsv)
    pcs = [z3.ULE(cmd, 3), z3.UGE(cmd, 1)]
    inputs = {'cmd': (cmd, 'u8'), 'rsv': (rsv, 'u8'), 'port': (port, 'u16')}
    if kind == 'domain':
        host, c = symbuf('host', 'string', 255)
        pcs += [c, z3.UGE(host.len, 1)]
        w = z3.Store(z3.Store(w, bv64(3), bvv(3, 8)), bv64(4), z3.Extract(7, 0, host.len))
        w = copy_into(w, bv64(5), host.arr, host.off, host.len)
        pp = bv64(5) + host.len
        addr = Enum(bv64(0), {'Domain': (host, (port, 'u16'))}, 'Address')
        inputs['host'] = host
    elif kind == 'v4':
        ip = symarr('ip4', 4)
        w = z3.Store(w, bv64(3), bvv(1, 8))
        for i in range(4):
            w = z3.Store(w, bv64(4 + i), z3.Select(ip.arr, bv64(i)))
        pp = bv64(8)
        sa = Enum(bv64(0), {'V4': (Agg('struct', (ip, (port, 'u16')), 'SocketAddrV4'),)}, 'SocketAddr')
        addr = Enum(bv64(1), {'Socket': (sa,)}, 'Address')
        inputs['ip4'] = ip
    else:
        ip = symarr('ip6', 16)
        w = z3.Store(w, bv64(3), bvv(4, 8))
        for i in range(16):
            w = z3.Store(w, bv64(4 + i), z3.Select(ip.arr, bv64(i)))
        pp = bv64(20)
        sa = Enum(bv64(1), {'V6': (Agg('struct', (ip, (port, 'u16'), (bvv(0, 32), 'u32'), (bvv(0, 32), 'u32')), 'SocketAddrV6'),)}, 'SocketAddr')
        addr = Enum(bv64(1), {'Socket': (sa,)}, 'Address')
        inputs['ip6'] = ip
    w = z3.Store(z3.Store(w, pp, z3.Extract(15, 8, port)), pp + 1, z3.Extract(7, 0, port))
    return w, pp + 2, addr, pcs, inputs, cmd


def _spec(entry, **extra):
    def f(m):
        spec = {'entry': entry, 'expect': 'mismatch'}
        spec.update(extra)
        for k, v in (m or {}).items():
            if isinstance(v, dict) and 'bytes' in v:
                if v['len'] > len(v['bytes']):
                    return None
                spec[k] = v['bytes']
            else:
                spec[k] = v
        return spec
    return f


def _skip_utf8(q):
    return any('utf8_ok' in str(c) and z3.is_not(c) for c in q.pcs)


def job_socks5_command(kind, which='request'):
    def job(ctx):
        prog = ctx.prog
        dec = prog.find_impl_fn('Socks5CommandRequestDecoder' if which == 'request' else 'Socks5CommandResponseDecoder', 'decode', trait='Decoder')
        ex = ctx.new_exec(unroll=8)
        crypto.install(ex)
        install_repo_contracts(ex)
        w, rlen, addr, pcs, inputs, cmd = socks5_wire(kind)
        if which == 'response':
            pcs = pcs[2:] + [z3.ULE(cmd, 1)]      # status byte: 0 success, 1 failure
        tail, ct = symbuf('tail')
        cut = z3.BitVec('cut', 64)
        inputs = dict(inputs)
        inputs['tail'] = tail
        inputs['cut'] = (cut, 'u64')
        ex.inputs = inputs
        rp = _spec('socks5_handshake', kind=kind, which=which)
        j = z3.BitVec('j', 64)
        site = dec.name
        self_v = Agg('struct', (), 'decoder')
        # (a) complete request followed by the first tunnel bytes
        full = Buf('bytesmut', copy_into(w, rlen, tail.arr, tail.off, tail.len), bv64(0), rlen + tail.len)
        paths = ex.run(dec, [Ref('#self'), Ref('#src')], pcs + [ct], st0={'#self': self_v, '#src': full})
        ctx.absorb(ex, paths, replay_of=lambda v: rp(v.model))
        nsome = 0
        for q in paths:
            if q.status != 'return' or _skip_utf8(q):
                continue
            r = q.ret
            ok = 'Ok' in r.payloads and 'Some' in r.payloads['Ok'][0].payloads
            if not ok:
                ctx.prove(ex, q, F, 'well-formed SOCKS5 command %s is not decoded (Err or None) although complete' % which, site, replay=rp)
                continue
            nsome += 1
            req = r.payloads['Ok'][0].payloads['Some'][0]
            ctype, daddr = req.fields[0], req.fields[1]
            rest = q.st['#src']
            ctx.prove(ex, q, z3.And(r.disc == 0, r.payloads['Ok'][0].disc == 1), 'well-formed SOCKS5 command %s is not decoded although complete' % which, site, replay=rp)
            ctx.prove(ex, q, addr_equal(ex, q.st, addr, daddr, j), 'decoded SOCKS5 address differs from the requested one', site, replay=rp, extra_inputs={'j': (j, 'u64')})
            ctx.prove(ex, q, ctype.disc == z3.ZeroExt(56, cmd), 'decoded SOCKS5 command/status differs from the byte on the wire', site, replay=rp)
            ctx.prove(ex, q, z3.And(rest.len == tail.len, z3.Implies(z3.ULT(j, tail.len), z3.Select(rest.arr, rest.off + j) == z3.Select(tail.arr, tail.off + j))),
                      'SOCKS5 decoder did not consume exactly the request bytes (first tunnel bytes lost or handshake bytes left over)', site, replay=rp,
                      extra_inputs={'j': (j, 'u64')})
        # (b) every strict prefix
        part = Buf('bytesmut', w, bv64(0), cut)
        paths = ex.run(dec, [Ref('#self'), Ref('#src')], pcs + [z3.ULT(cut, rlen)], st0={'#self': self_v, '#src': part})
        ctx.absorb(ex, paths, replay_of=lambda v: rp(v.model))
        nnone = 0
        for q in paths:
            if q.status != 'return':
                continue
            r = q.ret
            rest = q.st['#src']
            isnone = z3.And(r.disc == 0, r.payloads['Ok'][0].disc == 0) if 'Ok' in r.payloads else F
            nnone += 1 if 'Ok' in r.payloads else 0
            ctx.prove(ex, q, isnone, 'SOCKS5 decoder does not wait (Ok(None)) on a partial request', site, replay=rp)
            ctx.prove(ex, q, z3.And(rest.len == cut, rest.off == 0), 'SOCKS5 decoder consumed bytes of a partial request', site, replay=rp)
        ctx.out.vacuity = [('complete request decoded on some path', nsome > 0), ('partial request path', nnone > 0)]
        ctx.out.samples.append({'obligation': 'decode(request ++ tail) = (cmd, addr), rest = tail; decode(prefix) = Ok(None), untouched', 'kind': kind, 'which': which})
    return job


def job_socks5_initial(which='request'):
    def job(ctx):
        prog = ctx.prog
        dec = prog.find_impl_fn('Socks5InitialRequestDecoder' if which == 'request' else 'Socks5InitialResponseDecoder', 'decode', trait='Decoder')
        ex = ctx.new_exec(unroll=12)
        crypto.install(ex)
        install_repo_contracts(ex)
        n = z3.BitVec('nmethods', 8)
        w = z3.Array('wire0', BV64, BV8)
        w = z3.Store(w, bv64(0), bvv(5, 8))
        tail, ct = symbuf('tail')
        cut = z3.BitVec('cut', 64)
        j = z3.BitVec('j', 64)
        if which == 'request':
            w = z3.Store(w, bv64(1), n)
            rlen = bv64(2) + z3.ZeroExt(56, n)
            known = lambda b: z3.Or(z3.ULE(b, 2), b == 255)
            pcs = [z3.ULE(n, 8), z3.UGE(n, 1)] + [z3.Implies(z3.ULT(bvv(i, 8), n), known(z3.Select(w, bv64(2 + i)))) for i in range(8)]
        else:
            rlen = bv64(2)
            pcs = [z3.Or(z3.ULE(z3.Select(w, bv64(1)), 2), z3.Select(w, bv64(1)) == 255)]
        ex.inputs = {'nmethods': (n, 'u8'), 'wire': Buf('slice', w, bv64(0), rlen), 'tail': tail, 'cut': (cut, 'u64')}
        rp = _spec('socks5_handshake', kind='initial', which=which)
        site = dec.name
        self_v = Agg('struct', (), 'decoder')
        full = Buf('bytesmut', copy_into(w, rlen, tail.arr, tail.off, tail.len), bv64(0), rlen + tail.len)
        paths = ex.run(dec, [Ref('#self'), Ref('#src')], pcs + [ct], st0={'#self': self_v, '#src': full})
        ctx.absorb(ex, paths, replay_of=lambda v: rp(v.model))
        nsome = 0
        for q in paths:
            if q.status != 'return':
                continue
            r = q.ret
            ok = 'Ok' in r.payloads and 'Some' in r.payloads['Ok'][0].payloads
            if not ok:
                ctx.prove(ex, q, F, 'well-formed SOCKS5 greeting is not decoded although complete', site, replay=rp)
                continue
            nsome += 1
            rest = q.st['#src']
            ctx.prove(ex, q, z3.And(r.disc == 0, r.payloads['Ok'][0].disc == 1), 'well-formed SOCKS5 greeting is not decoded although complete', site, replay=rp)
            ctx.prove(ex, q, z3.And(rest.len == tail.len, z3.Implies(z3.ULT(j, tail.len), z3.Select(rest.arr, rest.off + j) == z3.Select(tail.arr, tail.off + j))),
                      'SOCKS5 greeting decoder did not consume exactly the greeting bytes', site, replay=rp, extra_inputs={'j': (j, 'u64')})
            if which == 'response':
                item = r.payloads['Ok'][0].payloads['Some'][0]
                ctx.prove(ex, q, z3.Extract(7, 0, item.fields[0].disc) == z3.Select(w, bv64(1)), 'decoded auth method differs from the byte on the wire', site, replay=rp)
        part = Buf('bytesmut', w, bv64(0), cut)
        paths = ex.run(dec, [Ref('#self'), Ref('#src')], pcs + [z3.ULT(cut, rlen)], st0={'#self': self_v, '#src': part})
        ctx.absorb(ex, paths, replay_of=lambda v: rp(v.model))
        nnone = 0
        for q in paths:
            if q.status != 'return':
                continue
            r = q.ret
            rest = q.st['#src']
            isnone = z3.And(r.disc == 0, r.payloads['Ok'][0].disc == 0) if 'Ok' in r.payloads else F
            nnone += 1 if 'Ok' in r.payloads else 0
            ctx.prove(ex, q, isnone, 'SOCKS5 greeting decoder does not wait (Ok(None)) on a partial greeting', site, replay=rp)
            ctx.prove(ex, q, z3.And(rest.len == cut, rest.off == 0), 'SOCKS5 greeting decoder consumed bytes of a partial greeting', site, replay=rp)
        ctx.out.vacuity = [('complete greeting decoded on some path', nsome > 0), ('partial greeting path', nnone > 0)]
    return job


def job_socks5_replies(ctx):
    """the replies the local handshake sends: [5, NoAuth] and [5, status, 0, address]"""
    prog = ctx.prog
    ex = ctx.new_exec(unroll=8)
    crypto.install(ex)
    install_repo_contracts(ex)
    enc = prog.find_impl_fn('Socks5InitialResponse', 'encode', trait='Socks5Message')
    meth = z3.BitVec('method', 64)
    ex.inputs = {'method': (meth, 'u64')}
    dst0 = Buf('bytesmut', fresh_bytes('dst0'), bv64(0), bv64(0))
    rp = _spec('socks5_replies')
    item = Agg('struct', (Enum(meth, {}, 'Socks5AuthMethod'),), 'Socks5InitialResponse')
    paths = ex.run(enc, [Ref('#item'), Ref('#dst')], [z3.Or(z3.ULE(meth, 2), meth == 255)], st0={'#item': item, '#dst': dst0})
    ctx.absorb(ex, paths)
    n = 0
    for q in paths:
        if q.status != 'return':
            continue
        n += 1
        d = q.st['#dst']
        ctx.prove(ex, q, z3.And(q.ret.disc == 0, d.len == 2, z3.Select(d.arr, d.off) == 5, z3.Select(d.arr, d.off + 1) == z3.Extract(7, 0, meth)),
                  'SOCKS5 method-selection reply is not [5, method]', enc.name, replay=rp)
    enc2 = prog.find_impl_fn('Socks5CommandResponse', 'encode', trait='Socks5Message')
    aenc = prog.find_fn(r'^socks5::address::encode$')
    from .c14 import sym_address
    for kind in ('v4', 'v6', 'domain'):
        addr, pcs, inputs = sym_address(kind)
        status = z3.BitVec('status', 64)
        ex.inputs = dict(inputs)
        ex.inputs['status'] = (status, 'u64')
        item = Agg('struct', (Enum(status, {}, 'Socks5CommandStatus'), addr), 'Socks5CommandResponse')
        paths = ex.run(enc2, [Ref('#item'), Ref('#dst')], pcs + [z3.ULE(status, 1)], st0={'#item': item, '#dst': dst0})
        ctx.absorb(ex, paths)
        j = z3.BitVec('j', 64)
        for q in paths:
            if q.status != 'return':
                continue
            d = q.st['#dst']
            okc = q.ret.disc == 0 if isinstance(q.ret, Enum) else T
            # the address part must be what address::encode alone writes (C14 proves that one against the decoder)
            for q2 in ex.run(aenc, [Ref('#addr'), Ref('#d2')], list(q.pcs), st0={'#addr': addr, '#d2': dst0}):
                if q2.status != 'return':
                    continue
                d2 = q2.st['#d2']
                ok2 = q2.ret.disc == 0 if isinstance(q2.ret, Enum) else T
                n += 1
                ctx.prove(ex, q2, z3.Implies(z3.And(okc, ok2), z3.And(d.len == d2.len + 3, z3.Select(d.arr, d.off) == 5, z3.Select(d.arr, d.off + 1) == z3.Extract(7, 0, status),
                                                                        z3.Select(d.arr, d.off + 2) == 0,
                                                                        z3.Implies(z3.ULT(j, d2.len), z3.Select(d.arr, d.off + 3 + j) == z3.Select(d2.arr, d2.off + j)))),
                          'SOCKS5 command reply is not [5, status, 0, address]', enc2.name, replay=rp)
                ctx.prove(ex, q2, okc == ok2, 'SOCKS5 command reply refusal differs from the address encoder', enc2.name, replay=rp)
    ctx.out.vacuity = [('reply encoders return', n >= 4)]


# ----------------------------------------------------------------------------------------------- HTTP
def _cls(c, chars='', ranges=()):
    return z3.Or(*([c == bvv(ord(x), 8) for x in chars] + [z3.And(z3.UGE(c, bvv(ord(a), 8)), z3.ULE(c, bvv(ord(b), 8))) for a, b in ranges]))


def is_alpha(c):
    return _cls(c, ranges=(('a', 'z'), ('A', 'Z')))


def is_digit(c):
    return _cls(c, ranges=(('0', '9'),))


def is_regname(c):
    return _cls(c, '.-_~', (('a', 'z'), ('A', 'Z'), ('0', '9')))


def is_v6char(c):
    return _cls(c, ':.', (('a', 'f'), ('A', 'F'), ('0', '9')))


def is_printable(c):
    return z3.And(z3.UGE(c, bvv(0x21, 8)), z3.ULE(c, bvv(0x7e, 8)))


def forall_in(L, s, lo, hi, pred):
    """pred(s[i]) for every lo <= i < hi (expanded over the L positions)"""
    return z3.And(*[z3.Implies(z3.And(z3.ULE(lo, bv64(i)), z3.ULT(bv64(i), hi)), pred(z3.Select(s, bv64(i)))) for i in range(L)])


def host_wf(L, s, hs, he):
    reg = forall_in(L, s, hs, he, is_regname)
    br = z3.And(z3.UGE(he - hs, bv64(4)), select_at(L, s, hs) == ord('['), select_at(L, s, he - 1) == ord(']'), forall_in(L, s, hs + 1, he - 1, is_v6char))
    return z3.And(z3.ULT(hs, he), z3.Or(reg, br))


def select_at(L, s, pos):
    return z3.Select(s, pos)


def port_value(L, s, lo, hi):
    """(well-formed, value): 1..5 digits, value <= 65535"""
    ok, val, defs = strmodel.parse_unsigned(s, lo, hi - lo, L, 16)
    nodigitsign = forall_in(L, s, lo, hi, is_digit)
    return z3.And(ok, nodigitsign, z3.ULT(lo, hi), z3.ULE(hi - lo, bv64(5))), z3.Extract(15, 0, val), defs


def http_job(connect, part=0, parts=1):
    def job(ctx):
        prog = ctx.prog
        L = 20 if ctx.tier == 'quick' else 28
        fn = prog.find_fn(r'(^|::)recognize_http$', crate='octo-squirrel-client')
        ex = ctx.new_exec(unroll=8)
        crypto.install(ex)
        install_repo_contracts(ex)
        strmodel.install(ex, L)
        s = z3.Array('target', BV64, BV8)
        n = z3.BitVec('target_len', 64)
        path = Buf('str', s, bv64(0), n)
        pcs = [z3.ULE(n, bv64(L))] + [z3.Implies(z3.ULT(bv64(i), n), is_printable(z3.Select(s, bv64(i)))) for i in range(L)]
        if connect:
            method = ex.const_bytes([ord(c) for c in 'CONNECT'], 'str')
        else:
            ma = z3.Array('method', BV64, BV8)
            ml = z3.BitVec('method_len', 64)
            method = Buf('str', ma, bv64(0), ml)
            is_connect = z3.And(ml == 7, *[z3.Select(ma, bv64(i)) == ord(c) for i, c in enumerate('CONNECT')])
            pcs += [z3.ULE(ml, 8), z3.UGE(ml, 1), z3.Not(is_connect)] + [z3.Implies(z3.ULT(bv64(i), ml), is_alpha(z3.Select(ma, bv64(i)))) for i in range(8)]
        # decomposition points of the reference grammar (universally quantified, constrained below)
        se, hs, he, ae, pe = [z3.BitVec(k, 64) for k in ('scheme_end', 'host_start', 'host_end', 'auth_end', 'path_end')]
        has_port = z3.Bool('has_port')
        ex.inputs = {'target': path, 'method': method, 'scheme_end': (se, 'u64'), 'host_start': (hs, 'u64'), 'host_end': (he, 'u64'), 'auth_end': (ae, 'u64'),
                     'path_end': (pe, 'u64'), 'has_port': (has_port, 'bool')}
        rp = _spec('recognize_http')
        paths = ex.run(fn, [method, path], pcs)
        ctx.absorb(ex, paths, replay_of=lambda v: rp(v.model))
        pw, pv, pdefs = port_value(L, s, he + 1, ae)
        if connect:
            wf = z3.And(pdefs, hs == 0, host_wf(L, s, hs, he), has_port, z3.ULT(he, n), z3.ULE(ae, n), z3.Select(s, he) == ord(':'), ae == n, pw)
        else:
            wf = z3.And(pdefs, z3.UGE(se, 1), z3.ULE(se, n), z3.ULE(se + 3, n), forall_in(L, s, bv64(0), se, is_alpha),
                        z3.Select(s, se) == ord(':'), z3.Select(s, se + 1) == ord('/'), z3.Select(s, se + 2) == ord('/'),
                        hs == se + 3, z3.ULE(he, n), host_wf(L, s, hs, he),
                        z3.If(has_port, z3.And(z3.ULT(he, n), z3.Select(s, he) == ord(':'), z3.ULE(ae, n), pw), ae == he),
                        z3.ULE(ae, pe), z3.ULE(pe, n),
                        z3.Implies(z3.ULT(ae, pe), z3.Select(s, ae) == ord('/')),
                        forall_in(L, s, ae, pe, lambda c: c != ord('?')),
                        z3.Implies(z3.ULT(pe, n), z3.Select(s, pe) == ord('?')))
        nacc = nref = 0
        site = fn.name
        for qi, q in enumerate(paths):
            if q.status != 'return':
                continue
            r = q.ret
            if 'Ok' in r.payloads:
                nacc += 1
            else:
                nref += 1
            if qi % parts != part:
                continue          # the obligations of the other paths are discharged by the sibling jobs (same deterministic exploration)
            if 'Ok' in r.payloads:
                proxy = r.payloads['Ok'][0]
                want_disc = 1 if connect else 0
                var = 'Https' if connect else 'Http'
                if var not in proxy.payloads:
                    ctx.prove(ex, q, z3.Not(wf), 'well-formed %s request recognised as the wrong kind of proxy request' % ('CONNECT' if connect else 'absolute-URI'), site, replay=rp)
                    continue
                a = proxy.payloads[var][0]
                host, port = a.payloads['Domain']
                same = z3.And(proxy.disc == want_disc, a.disc == 0, host.len == he - hs, port[0] == z3.If(has_port, pv, bvv(80, 16)),
                              *[z3.Implies(z3.ULT(bv64(k), host.len), z3.Select(host.arr, host.off + bv64(k)) == z3.Select(s, hs + bv64(k))) for k in range(L)])
                ctx.prove(ex, q, z3.Implies(wf, same), 'target host/port extracted from a well-formed %s differs from the one named in it' % ('CONNECT request' if connect else 'absolute-URI request'),
                          site, replay=rp)
                ctx.prove(ex, q, host.len != 0, 'a request target that names no host is accepted (tunnel to an empty host name)', site, replay=rp)
                if not connect:
                    has_scheme = z3.Or(*[z3.And(z3.ULE(bv64(i + 3), n), z3.Select(s, bv64(i)) == ord(':'), z3.Select(s, bv64(i + 1)) == ord('/'), z3.Select(s, bv64(i + 2)) == ord('/'))
                                         for i in range(L)])
                    ctx.prove(ex, q, has_scheme, 'a non-CONNECT request whose target is not an absolute URI (no scheme://) is accepted', site, replay=rp)
            else:
                ctx.prove(ex, q, z3.Not(wf), 'well-formed %s is refused' % ('CONNECT request' if connect else 'absolute-URI request'), site, replay=rp)
        # vacuity: the grammar is inhabited on an accepting path, with and without port, with "://" inside the path
        okp = [q for q in paths if q.status == 'return' and 'Ok' in q.ret.payloads]
        ctx.out.vacuity = [('accepting path', nacc > 0), ('refusing path', nref > 0)]
        if part == 0:
            ctx.out.vacuity += [('grammar inhabited (with port)', any(ex.check(q.pcs + [wf, has_port])[0] for q in okp)),
                                ('grammar inhabited (bracketed host)', any(ex.check(q.pcs + [wf, z3.Select(s, hs) == ord('[')])[0] for q in okp))]
            if not connect:
                ctx.out.vacuity.append(('grammar inhabited (default port, query with ?)', any(ex.check(q.pcs + [wf, z3.Not(has_port), z3.ULT(pe + 2, n)])[0] for q in okp)))
        ctx.out.bounds = {'L': L, 'paths': len(paths), 'part': '%d/%d' % (part + 1, parts)}
        ctx.out.samples.append({'obligation': 'recognize_http(method, t) = (kind, host(t), port(t) | 80) for every grammatical t, |t| <= %d; no-host targets refused' % L,
                                'method': 'CONNECT' if connect else 'any other token'})
    return job


def jobs(prog, tier):
    js = []
    for k in ('domain', 'v4', 'v6'):
        js.append(('socks5 command request[%s]' % k, job_socks5_command(k, 'request'), 600))
        js.append(('socks5 command response[%s]' % k, job_socks5_command(k, 'response'), 600))
    js.append(('socks5 greeting', job_socks5_initial('request'), 600))
    js.append(('socks5 method selection', job_socks5_initial('response'), 600))
    js.append(('socks5 replies', job_socks5_replies, 600))
    for k in range(3):
        js.append(('http CONNECT %d/3' % (k + 1), http_job(True, k, 3), 1500))
    for k in range(8):
        js.append(('http absolute-URI %d/8' % (k + 1), http_job(False, k, 8), 1500))
    return js
