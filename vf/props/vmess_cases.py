"""VMess decoder cases: read_address_port, server Init (auth-id matching + open_header + header parse + body codec construction),
AEADBodyCodec::{decode_payload, decode_packet} from symbolic codec states, client response header."""
import re
import z3

from ..values import *  # noqa
from ..models import one, U
from .common import *  # noqa
from .decoders import Case, _spec

SECURITY = {'Aes128Gcm': 3, 'Chacha20Poly1305': 4}


def counting_authenticator(variant, name):
    """codec::vmess::aead::Authenticator { cipher, counting: CountingNonceGenerator { count: u16, nonce_size: usize } }"""
    return Agg('struct', (cipher_method(variant), Agg('struct', ((z3.BitVec(name + '_count', 16), 'u16'), (bv64(12), 'usize')), 'CountingNonceGenerator')), 'Authenticator')


def body_codec(chunk, padding, variant='Aes128Gcm'):
    """AEADBodyCodec { auth, chunk, padding, shake, payload_limit, state } with a symbolic decode state"""
    chunkv = {'Plain': Enum(bv64(0), {}, 'ChunkSizeParser'),
              'Auth': Enum(bv64(1), {'Auth': (counting_authenticator(variant, 'lenauth'),)}, 'ChunkSizeParser'),
              'Shake': Enum(bv64(2), {}, 'ChunkSizeParser')}[chunk]
    padv = Enum(bv64(0 if padding == 'Empty' else 1), {}, 'PaddingLengthGenerator')
    shake = Agg('struct', (Opaque('xof reader'), symarr('shakebuf', 2)), 'ShakeSizeParser')
    sd = z3.BitVec('bstate', 64)
    pad = z3.BitVec('bpad', 64)
    ln = z3.BitVec('blen', 64)
    state = Enum(sd, {'Length': ((pad, 'usize'),), 'Body': ((pad, 'usize'), (ln, 'usize'))}, 'DecodeState')
    codec = Agg('struct', (counting_authenticator(variant, 'bodyauth'), chunkv, padv, shake, (bv64(2048), 'usize'), state), 'AEADBodyCodec')
    # reachable states: padding < 64 (next() % 64), zero when padding is off; Body length comes from a 16-bit size (+ tag for the authenticated parser)
    pcs = [z3.ULE(sd, 2), z3.ULT(pad, 64), z3.ULE(ln, 0xffff + 16)]
    if padding == 'Empty':
        pcs.append(pad == 0)
    ins = {'bstate': (sd, 'u64'), 'bpad': (pad, 'usize'), 'blen': (ln, 'usize')}
    return codec, pcs, ins


def session_val(kind):
    return Agg('struct', (symarr('req_iv', 16), symarr('req_key', 16), symarr('resp_iv', 16), symarr('resp_key', 16), (z3.BitVec('resp_hdr', 8), 'u8')), kind)


def vmess_cases(prog, tier):
    out = []
    b, c = symbuf('src')
    # 1. read_address_port over an arbitrary Bytes
    f = prog.find_fn(r'(^|::)read_address_port$')
    bb = Buf('bytes', b.arr, b.off, b.len)
    out.append(Case('vmess::address::read_address_port', f, [Ref('#src')], {'#src': bb}, {'src': bb}, [c], replay=_spec('vmess_read_address', {}), group='vmess'))

    # 2. body codec from symbolic states
    fp = prog.find_impl_fn('AEADBodyCodec', 'decode_payload')
    fk = prog.find_impl_fn('AEADBodyCodec', 'decode_packet')
    combos = [('Plain', 'Empty'), ('Shake', 'Shake'), ('Auth', 'Shake'), ('Auth', 'Empty'), ('Shake', 'Empty'), ('Plain', 'Shake')]
    for chunk, padding in combos:
        codec, pcs, ins = body_codec(chunk, padding)
        st0 = {'#self': codec, '#src': b, '#sess': session_val('ServerSession')}
        inputs = {'src': b}
        inputs.update(ins)

        def setup(ex):
            vmess_option_contract(ex)
            ex.cut_loops = [('decode_payload', 'bb2'), ('decode_payload', 'bb1'), ('decode_payload', 'bb3')]
        cfg = {'chunk': chunk, 'padding': padding, 'command': 'TCP', 'side': 'server'}
        out.append(Case('vmess::AEADBodyCodec::decode_payload[%s,%s]' % (chunk, padding), fp, [Ref('#self'), Ref('#src'), Ref('#sess')], st0, inputs, [c] + pcs, setup=setup,
                        unroll=6, replay=_spec('vmess_body', cfg), group='vmess',
                        notes=['AEADBodyCodec::decode_payload loop closed by induction (start state is an arbitrary loop-head state)']))
        cfg2 = dict(cfg, command='UDP')
        out.append(Case('vmess::AEADBodyCodec::decode_packet[%s,%s]' % (chunk, padding), fk, [Ref('#self'), Ref('#src'), Ref('#sess')], st0, inputs, [c] + pcs,
                        setup=setup, unroll=6, replay=_spec('vmess_body', cfg2), group='vmess'))

    # 3. server Init
    fs = prog.find_impl_fn('ServerAeadCodec', 'decode', trait='Decoder', crate='octo-squirrel-server')
    keys = List((symarr('cmdkey0', 16),))
    scodec = Agg('struct', (keys, Enum(bv64(0), {}, 'DecodeState'), Enum(bv64(0), {}, 'EncodeState'), (F, 'bool')), 'ServerAeadCodec')

    def setup_s(ex):
        vmess_option_contract(ex)
        ex.cut_loops = [('decode_payload', 'bb2'), ('decode_payload', 'bb1'), ('decode_payload', 'bb3')]
    out.append(Case('vmess::ServerAeadCodec::decode[Init]', fs, [Ref('#self'), Ref('#src')], {'#self': scodec, '#src': b}, {'src': b}, [c], setup=setup_s, unroll=6,
                    replay=_spec('vmess_server', {'state': 'Init'}), group='vmess'))

    # 4. client: response header (body_decoder None)
    fc = prog.find_impl_fn('ClientAEADCodec', 'decode', trait='Decoder', crate='octo-squirrel-client')
    for sec in ('Aes128Gcm', 'Chacha20Poly1305'):
        hdr = Agg('struct', ((bvv(1, 8), 'u8'), Enum(z3.BitVec('cmd', 64), {}, 'RequestCommand'), Agg('optmask', ((z3.BitVec('optmask', 8), 'u8'),), 'OptionSet'),
                             Enum(bv64(SECURITY[sec]), {}, 'SecurityType'), Opaque('address'), symarr('id', 16)), 'RequestHeader')
        ccodec = Agg('struct', (hdr, session_val('ClientSession'), opt_none(), opt_none()), 'ClientAEADCodec')
        cmd = z3.BitVec('cmd', 64)
        out.append(Case('vmess::ClientAEADCodec::decode[header,%s]' % sec, fc, [Ref('#self'), Ref('#src')], {'#self': ccodec, '#src': b}, {'src': b},
                        [c, z3.Or(cmd == 1, cmd == 2)], setup=setup_s, unroll=6, replay=_spec('vmess_client', {'security': sec}), group='vmess'))
    return out
