"""Reference wire layouts written from the published protocol specifications (NOT from the repository's encoders):
what a genuine, independent sender seals and in which order it puts it on the wire.  Each builder returns a `Stream`:
  entries     ideal-AEAD log entries (vf.ideal.Sealed) in sealing order
  segments    wire order: ('raw', arr, off, len) | ('sealed', entry)    (a sealed segment is ciphertext body || 16-byte tag)
  payloads    the application plaintext chunks, in order: (arr, off, len)
  constraints side conditions on the symbolic sizes / fields
`Stream.realize()` defines the byte array of the whole stream (ciphertext bodies are arbitrary fresh bytes).

Sources: shadowsocks.org "AEAD ciphers" (salt, [len][tag][payload][tag], nonce little-endian counter from 0, HKDF-SHA1 "ss-subkey");
SIP022 (2022 edition: fixed/variable-length headers, type 0/1, timestamp, request salt echo, BLAKE3 sub keys, datagram layouts);
V2Fly VMess AEAD (auth id, sealed length + header, response header, chunk stream with masking / padding / authenticated length);
trojan-gfw protocol (hex(SHA224(password)) CRLF cmd addr CRLF payload; UDP: addr len CRLF payload).
"""
import z3

from ..values import *  # noqa
from .. import ideal


def be16(arr_or_none, v):
    """2-byte big-endian array of the 16-bit value held in the 64-bit term v"""
    a = z3.K(BV64, bvv(0, 8))
    a = z3.Store(a, bv64(0), z3.Extract(15, 8, v))
    return z3.Store(a, bv64(1), z3.Extract(7, 0, v))


def nonce96(i):
    return z3.BitVecVal(i, 96)


class Stream:
    """`base` is the byte array of the whole stream as it appears on the wire: raw fields are windows of it, a sealed segment is an
    arbitrary ciphertext body (a window of it) followed by the entry's tag (16 byte equalities at a symbolic position)."""

    def __init__(self, name='wire'):
        self.entries, self.segments, self.payloads, self.constraints = [], [], [], []
        self.fields = {}
        self.base = z3.Array(name, BV64, BV8)
        self.pos = bv64(0)
        self.layout = []      # constraints tying `base` to the log (only needed when the stream itself is the decoder's input)

    def seal(self, kid, nonce, pt, aad=None, label=''):
        e = ideal.Sealed(kid, nonce, pt, aad=aad, label=label)
        self.entries.append(e)
        self.segments.append(('sealed', e))
        self.pos = z3.simplify(self.pos + pt[2])
        self.layout.append(ideal.tag_at(self.base, self.pos) == e.tag)
        self.pos = z3.simplify(self.pos + bv64(ideal.TAG))
        return e

    def raw(self, ln):
        """a raw field of ln bytes: returns its window (arr, off, len)"""
        ln = bv64(ln) if isinstance(ln, int) else ln
        w = (self.base, self.pos, ln)
        self.segments.append(('raw',) + w)
        self.pos = z3.simplify(self.pos + ln)
        return w

    def raw_bytes(self, values):
        """a raw field with given byte terms"""
        w = self.raw(len(values))
        for i, v in enumerate(values):
            self.layout.append(z3.Select(self.base, w[1] + bv64(i)) == v)
        return w

    def total(self):
        return self.pos

    def boundaries(self):
        """end offsets of the segments"""
        out, t = [], bv64(0)
        for s in self.segments:
            t = t + (s[1].pt[2] + bv64(ideal.TAG) if s[0] == 'sealed' else s[3])
            out.append(z3.simplify(t))
        return out

    def realize(self, kind='bytesmut'):
        """the stream as a decoder input; `layout` must be added to the path condition"""
        return Buf(kind, self.base, bv64(0), self.pos)


def sym_payload(name, lo=1, hi=0xffff):
    ln = z3.BitVec(name + '_len', 64)
    return (z3.Array(name, BV64, BV8), bv64(0), ln), [z3.UGE(ln, lo), z3.ULE(ln, hi)]


def ss_chunks(kid, K, first_nonce=0, stream=None, name='P'):
    """Shadowsocks AEAD chunk stream: [encrypted payload length][length tag][encrypted payload][payload tag], nonce += 1 per seal"""
    s = stream or Stream(name + '_wire')
    n = first_nonce
    for j in range(K):
        pl, cs = sym_payload('%s%d' % (name, j))
        s.constraints += cs
        s.seal(kid, nonce96(n), (be16(None, pl[2]), bv64(0), bv64(2)), label='len%d' % j)
        s.seal(kid, nonce96(n + 1), pl, label='payload%d' % j)
        s.payloads.append(pl)
        n += 2
    s.next_nonce = n
    return s


def ss_kid(legacy, key_arr, N, salt_arr, salt_off=None):
    """session key identity: HKDF-SHA1(psk, salt, "ss-subkey") for the AEAD ciphers, BLAKE3 derive_key("shadowsocks 2022 session subkey", psk || salt) for 2022"""
    so = bv64(0) if salt_off is None else salt_off
    return ('hkdf-ss-subkey' if legacy else 'ss2022-subkey', (ideal.bits(key_arr, bv64(0), N), ideal.bits(salt_arr, so, N)))


def addr_len_ref(arr, off):
    """length of a SOCKS5-style address (ATYP, address, port) starting at arr[off], from RFC 1928"""
    atyp = z3.Select(arr, off)
    dl = z3.ZeroExt(56, z3.Select(arr, off + 1))
    return z3.If(atyp == 1, bv64(7), z3.If(atyp == 4, bv64(19), bv64(4) + dl)), z3.Or(atyp == 1, atyp == 4, z3.And(atyp == 3, dl != 0))


def ss_tcp_stream(legacy, key_arr, N, direction, K, name, request_salt=None):
    """one direction of a Shadowsocks TCP connection as a genuine peer writes it.
    direction 'request' (client->server) or 'response' (server->client).  Returns a Stream whose payloads are the application bytes
    the receiver must release (for a request: what follows address and padding)."""
    s = Stream(name + '_wire')
    salt = s.raw(N)[0]          # the salt is the first N bytes of the stream
    s.fields['salt'] = salt
    kid = ss_kid(legacy, key_arr, N, salt)
    if legacy:
        ss_chunks(kid, K, 0, s, name + '_P')
        if direction == 'request':
            # the request stream starts with the target address (SOCKS5 format); the receiver releases what follows it
            s.raw_chunks = list(s.payloads)     # what a receiver without address handling (a reflecting client) releases
            a, o, ln = s.payloads[0]
            alen, wf = addr_len_ref(a, o)
            s.constraints += [wf, z3.ULE(alen, ln)]
            s.payloads[0] = (a, o + alen, ln - alen)
            s.fields['addr'] = (a, o, alen)
        return s
    ts = z3.BitVec(name + '_ts', 64)
    s.fields['ts'] = ts
    typ = 0 if direction == 'request' else 1
    var, cs = sym_payload(name + '_var', 0 if direction == 'response' else 1, 0xffff)
    s.constraints += cs
    fixed = z3.K(BV64, bvv(0, 8))
    fixed = z3.Store(fixed, bv64(0), bvv(typ, 8))
    for i in range(8):
        fixed = z3.Store(fixed, bv64(1 + i), z3.Extract(63 - 8 * i, 56 - 8 * i, ts))
    pos = 9
    if direction == 'response':
        for i in range(N):
            fixed = z3.Store(fixed, bv64(pos + i), z3.Select(request_salt, bv64(i)))
        pos += N
    fixed = z3.Store(fixed, bv64(pos), z3.Extract(15, 8, var[2]))
    fixed = z3.Store(fixed, bv64(pos + 1), z3.Extract(7, 0, var[2]))
    s.seal(kid, nonce96(0), (fixed, bv64(0), bv64(pos + 2)), label=name + ':fixed')
    s.seal(kid, nonce96(1), var, label=name + ':var')
    if direction == 'request':
        alen, wf = addr_len_ref(var[0], var[1])
        padlen = z3.ZeroExt(48, z3.Concat(z3.Select(var[0], var[1] + alen), z3.Select(var[0], var[1] + alen + 1)))
        k = alen + 2 + padlen
        s.constraints += [wf, z3.ULE(k, var[2])]
        s.payloads.append((var[0], var[1] + k, var[2] - k))
        s.fields['addr'] = (var[0], var[1], alen)
    else:
        s.payloads.append(var)
    ss_chunks(kid, K, 2, s, name + '_P')
    return s


# --------------------------------------------------------------------------- VMess AEAD body (V2Fly "VMess AEAD" data section)
def shake_draw(k):
    """k-th 16-bit big-endian draw from SHAKE128(body IV): shared by sender and receiver (deterministic function of the IV)"""
    return z3.BitVec('shake%d' % k, 16)


def vmess_nonce(count, iv_arr, iv_off=None):
    """AEAD nonce of chunk `count`: big-endian 16-bit counter followed by bytes 2..12 of the body IV (as the little-endian
    concatenation vf.ideal uses for nonces)"""
    if isinstance(iv_arr, tuple):
        iv_arr, iv_off = iv_arr
    o = bv64(0) if iv_off is None else iv_off
    bs = [z3.Select(iv_arr, o + bv64(i)) for i in reversed(range(2, 12))] + [bvv(count & 0xff, 8), bvv(count >> 8, 8)]
    return z3.Concat(*bs)


def _ao(x):
    return x if isinstance(x, tuple) else (x, bv64(0))


def vmess_body_kid(security, key_arr):
    kb = ideal.bits(_ao(key_arr)[0], _ao(key_arr)[1], 16)
    return ('vmess-chacha', (kb,)) if security == 'Chacha20Poly1305' else ('raw', (kb,))


def vmess_len_kid(security, key_arr):
    kb = ideal.bits(_ao(key_arr)[0], _ao(key_arr)[1], 16)
    return ('vmess-chacha(kdf16|auth_len)', (kb,)) if security == 'Chacha20Poly1305' else ('kdf16|auth_len', (kb,))


def vmess_body_stream(security, chunk, padding, body_key, body_iv, len_key, len_iv, K, name, stream=None, hi=0x3000):
    """K chunks of the data section.  chunk in Plain|Shake|Auth (no masking / ChunkMasking / AuthenticatedLength), padding in
    Empty|Shake (GlobalPadding).  Per chunk: [size field][AEAD(payload)][padding]; size = len(payload) + 16 + padding;
    with GlobalPadding the padding length is the next SHAKE draw mod 64, drawn before the size mask."""
    s = stream or Stream(name + '_wire')
    kid = vmess_body_kid(security, body_key)
    lkid = vmess_len_kid(security, len_key)
    draw = 0
    for j in range(K):
        pl, cs = sym_payload('%s%d' % (name, j), 1, hi)
        s.constraints += cs
        pad = bv64(0)
        if padding == 'Shake':
            pad = z3.ZeroExt(48, z3.URem(shake_draw(draw), bvv(64, 16)))
            draw += 1
        size = pl[2] + bv64(16) + pad
        if chunk == 'Plain':
            s.raw_bytes([z3.Extract(15, 8, size), z3.Extract(7, 0, size)])
        elif chunk == 'Shake':
            masked = z3.Extract(15, 0, size) ^ shake_draw(draw)
            draw += 1
            s.raw_bytes([z3.Extract(15, 8, masked), z3.Extract(7, 0, masked)])
        else:
            s.seal(lkid, vmess_nonce(j, len_iv), (be16(None, size - bv64(16)), bv64(0), bv64(2)), label='%s:len%d' % (name, j))
        s.seal(kid, vmess_nonce(j, body_iv), pl, label='%s:payload%d' % (name, j))
        s.payloads.append(pl)
        if padding == 'Shake':
            s.raw(pad)
    s.draws = draw
    return s


VMESS_SECURITY = {'Aes128Gcm': 3, 'Chacha20Poly1305': 4}


def vmess_request(cmdkey, security, chunk, padding, command, K, name='vreq', hi=0x3000):
    """a complete VMess AEAD request as an independent client writes it:
    [auth id 16][AEAD(header length) 2+16][connection nonce 8][AEAD(header) n+16][data section]
    header: ver=1, body IV 16, body key 16, response auth V, options, padding P<<4 | security, 0, command, port, address type,
    address, P random bytes, FNV1a32 of everything before it.  Header keys/IVs: KDF(cmd key, label, auth id, connection nonce)."""
    s = Stream(name + '_wire')
    authid = s.raw(16)
    kb = ideal.bits(cmdkey, bv64(0), 16)
    nonce_pos = bv64(16 + 18)
    ab = ideal.bits(s.base, bv64(0), 16)
    nb = ideal.bits(s.base, nonce_pos, 8)
    aad = (s.base, bv64(0), bv64(16))
    hp = z3.Array(name + '_header', BV64, BV8)
    P = z3.BitVec(name + '_hpad', 8)
    mask = 1 | {'Plain': 0, 'Shake': 4, 'Auth': 16}[chunk] | (8 if padding == 'Shake' else 0)
    alen = 2 + 1 + 4                                    # port, type, IPv4
    hlen = bv64(38 + alen + 4) + z3.ZeroExt(56, P)
    s.constraints += [z3.ULE(P, 15), z3.Select(hp, bv64(0)) == 1, z3.Select(hp, bv64(34)) == mask,
                      z3.Select(hp, bv64(35)) == ((P << 4) | VMESS_SECURITY[security]), z3.Select(hp, bv64(36)) == 0,
                      z3.Select(hp, bv64(37)) == (1 if command == 'TCP' else 2), z3.Select(hp, bv64(40)) == 1]
    fnv = z3.BitVec('fnv_of_header', 32)
    for i in range(4):
        s.constraints.append(z3.Select(hp, hlen - 4 + bv64(i)) == z3.Extract(31 - 8 * i, 24 - 8 * i, fnv))
    lk = ('kdf16|VMess Header AEAD Key_Length|*16|*8', (kb, ab, nb))
    liv = ideal.kdf_fn('kdfn|VMess Header AEAD Nonce_Length|*16|*8', (kb, ab, nb), 12)
    s.seal(lk, liv, (be16(None, hlen), bv64(0), bv64(2)), aad=aad, label=name + ':hlen')
    s.raw(8)
    hk = ('kdf16|VMess Header AEAD Key|*16|*8', (kb, ab, nb))
    hiv = ideal.kdf_fn('kdfn|VMess Header AEAD Nonce|*16|*8', (kb, ab, nb), 12)
    s.seal(hk, hiv, (hp, bv64(0), hlen), aad=aad, label=name + ':header')
    s.fields.update(header=hp, hlen=hlen, authid=authid, fnv=fnv, body_iv=(hp, bv64(1)), body_key=(hp, bv64(17)), addr=(hp, bv64(38), bv64(alen)))
    s.header_segments = len(s.segments)
    vmess_body_stream(security, chunk, padding, (hp, bv64(17)), (hp, bv64(1)), (hp, bv64(17)), (hp, bv64(1)), K, name + '_P', stream=s, hi=hi)
    return s
