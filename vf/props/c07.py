"""C07 - no input from the network can crash a task or the process.

Every network-facing decoder, in every decoder state class, executed symbolically (Engine M) on an arbitrary byte string of
arbitrary length; cryptographic opens are havoc contracts (may fail; on success the plaintext is arbitrary), so
authenticated-but-malformed content is covered.  Obligations: every precondition of a bytes/slice/Option/Result API call
whose violation panics, every MIR assert (overflow, index, division), every reachable panic call.
"""
from . import decoders

PROPERTY_ID = 'C07'
LEVEL = 'proof'
BOUNDS = {
    'buffers': 'symbolic length up to 2^32 bytes (no real allocation is larger); content arbitrary',
    'loops': 'chunk loops closed by induction from an arbitrary loop-head state; SOCKS5 method list <= 8 entries; other loops unrolled <= 12 (reaching a bound is reported as inconclusive)',
    'states': 'one decode step from a symbolic state of each state class (covers all call sequences by induction on the decoder state)',
}
TRUSTED_BASE = ['rustc MIR printer (nightly, dev profile, overflow checks on)', 'vf.engine MIR->z3 translation', 'vf.models contracts for bytes/std APIs (documented panic conditions)',
                'vf.crypto havoc contracts for AEAD/hash/XOF/KDF primitives', 'z3']
ASSUMPTIONS = ['logging is disabled (log level tests are false): formatting of log arguments is not explored',
               'hex::decode, kdf16/kdfn, hkdfsha1, session_sub_key, now(), salt cache, user table, AES-ECB helpers are contracts (named per job); hex::decode and the bytes contracts are cross-checked by Kani harnesses',
               'allocation failure, stack overflow and the transport stacks below the codecs (rustls, tokio-websockets, quinn, httparse) are outside']
EXPLANATION = 'panic-freedom of decoders as unsat queries over byte arrays with symbolic length'


def make_job(case):
    def job(ctx):
        ex, paths = case.run(ctx)
        ctx.absorb(ex, paths, replay_of=lambda v: case.replay(v.model) if case.replay else None,
                   classes=lambda p: 'return')
        ctx.out.assumptions += case.notes
        ctx.out.bounds = {'unroll': case.unroll, 'N': case.N}
        ctx.out.vacuity = [('at least two feasible paths', len(paths) >= 2)]
        ctx.out.samples.append({'decoder': case.name, 'paths': len(paths), 'obligations': ctx.out.obligations})
    return job


def jobs(prog, tier):
    return [(c.name, make_job(c), 900) for c in decoders.all_cases(prog, tier)]
