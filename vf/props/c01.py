"""C01 - TCP relay is byte-transparent end to end (claimed for the codec composition, the only layer that transforms bytes).

Engine M, ideal AEAD in mode `exact`: the REAL client encoder is executed for W writes of arbitrary sizes and contents towards an
arbitrary target address; the bytes it produced (a symbolic-length buffer whose sealed regions are entries of the ghost log, with
the key identities and nonces the encoder really used) are handed to the REAL server decoder through the FramedRead loop model in
1 or 2 segments with a symbolic cut; oracle: the first item is the connect item naming exactly the requested address, and the
concatenation of everything released equals the concatenation of everything written.  The mirror image runs the real server
encoder into the real client decoder.  Key, nonce and framing agreement between the two ends is thereby decided by the real code
of both ends (a nonce-order, key-derivation-input or length-field disagreement makes the open fail).
"""
import re
import z3

from ..values import *  # noqa
from ..engine import Inconclusive
from ..models import one, U
from .common import *  # noqa
from .. import crypto, ideal
from . import wire, c05, c04, c14, decoders

PROPERTY_ID = 'C01'
LEVEL = 'proof'
BOUNDS = {'writes': 'application writes of arbitrary content whose sizes come from a grid of concrete values (quick: (1,64) (37,5); thorough adds an empty first write (2022 padding), thorough adds 65494/65495/70000-byte first writes that cross the chunk limit, and three-write scripts); write sizes of every value are covered on the encoder side (C03)',
          'segmentation': '1 or 2 segments with a symbolic cut point', 'address': 'IPv4, IPv6 or a domain name of symbolic length 1..255'}
TRUSTED_BASE = ['rustc MIR printer', 'vf.engine', 'vf.ideal exact mode (a ciphertext opens iff the same key identity and nonce sealed it)', 'FramedRead loop model', 'z3']
ASSUMPTIONS = ['the two forward pumps, try_join!, flush/close/EOF propagation, transport selection and the transports themselves are outside (async shell): a change confined to relay_tcp / relay_bidirectional is not detected',
               'randomness (salts, padding) is arbitrary']
EXPLANATION = 'decode(encode(writes)) == writes and target == requested, for every write size, content, address and cut (unsat of the negation per path)'


def W_of(tier):
    return 3 if tier == 'thorough' else 2


def server_payload_codec(prog, N, kind, st0):
    """octo-squirrel-server PayloadCodec { context: Arc<Context>, session, cipher, state }"""
    ident = Agg('struct', (symarr('server_salt', N), opt_none(), opt_none()), 'Identity')
    sess = Agg('struct', (Enum(bv64(1), {}, 'Mode'), ident, opt_none()), 'Session')
    codec = Agg('struct', (opt_none(), opt_none()), 'AEADCipherCodec')
    return Agg('struct', (Agg('arc', (Ref('#sctx'),)), sess, codec, Enum(bv64(0), {}, 'State')), 'PayloadCodec')


def make_ss_request_job(N, kind, akind, tier, nseg, sizes):
    legacy = not kind.startswith('Aead2022')

    def job(ctx):
        W = len(sizes)
        prog = ctx.prog
        case = decoders.ss_tcp_cases(prog, [(N, kind, 'Client', False, False)])[0]
        ex = c05.base_exec(ctx, N, 16, mode='exact')
        case.setup(ex)
        ex.cut_loops = []
        c04_salt_cache(ex, N)
        padding_grid(ex)
        addr, apcs, ains = c14.sym_address(akind)
        if akind == 'domain':
            hl = {16: 11, 32: 255}[N] if nseg == 1 else 1
            addr = Enum(bv64(0), {'Domain': (Buf('string', ains['host'].arr, bv64(0), bv64(hl)), addr.payloads['Domain'][1])}, 'Address')
            ains['host'] = addr.payloads['Domain'][0]
            apcs = []
        st0 = dict(case.st0)
        csess = st0['#sess']
        st0['#sess'] = Agg('struct', (csess.fields[0], csess.fields[1], opt_some(addr)), 'Session')
        items = []
        pcs = list(apcs)
        for i in range(W):
            # contents arbitrary; the size of each write is one of a grid of concrete values (symbolic-length copies through both
            # codecs make every query an array-lambda problem; sizes of every value are covered on the encoder side by C03)
            b = Buf('bytesmut', z3.Array('write%d' % i, BV64, BV8), bv64(0), bv64(sizes[i]))
            items.append(b)
        st0['#dst'] = Buf('bytesmut', fresh_bytes('dst'), bv64(0), bv64(0))
        enc = prog.find_impl_fn('AEADCipherCodec', 'encode', file_part='tcp.rs')
        secs = z3.BitVec('clock_secs', 64)
        # the clock does not move between the client's write and the server's read (timestamps are compared by C10)
        # independent random salts of the two ends do not collide
        csalt = csess.fields[1].fields[0].arr
        ssalt = z3.Array('server_salt', BV64, BV8)
        pcs.append(z3.Or(*[z3.Select(csalt, bv64(i)) != z3.Select(ssalt, bv64(i)) for i in range(N)]))
        paths = ex.run(enc, [Ref('#self'), Ref('#ctx'), Ref('#sess'), items[0], Ref('#dst')], pcs + [secs >= 0, secs < (1 << 62)], st0=st0)
        for i in range(1, W):
            nxt = []
            for p in paths:
                if p.status == 'return' and ex.check(p.pcs + [p.ret.disc == 0])[0]:
                    p.pcs.append(p.ret.disc == 0)
                    nxt += ex.resume(p, enc, [Ref('#self'), Ref('#ctx'), Ref('#sess'), items[i], Ref('#dst')])
                else:
                    ctx.absorb(ex, [p])
                    if p.status == 'return':
                        ctx.prove(ex, p, p.ret.disc == 0, 'the encoder refuses a write', enc.name + '@encode')
            paths = nxt
        dec = prog.find_impl_fn('PayloadCodec', 'decode', trait='Decoder', crate='octo-squirrel-server')
        sctx = Agg('struct', (case.st0['#ctx'].fields[0], List(()), cipher_kind(kind), opt_none(), Opaque('nonce_cache')), 'Context')
        site = dec.name + '@framed'
        ndone = 0
        nresp = [0]
        ex.inputs = {'write%d' % i: items[i] for i in range(W)}
        ex.inputs.update(ains)

        def rp(m):
            spec = {'entry': 'compose', 'proto': 'ss_tcp', 'N': N, 'kind': kind, 'writes': [], 'cuts': [m[k] for k in sorted(m) if k.startswith('cut') and isinstance(m[k], int)]}
            for i in range(W):
                v = m.get('write%d' % i)
                spec['writes'].append(v['bytes'] if isinstance(v, dict) else [])
            for k in ('ip4', 'ip6', 'port'):
                if k in m:
                    spec[k] = m[k]
            if isinstance(m.get('host'), dict):
                spec['host'] = m['host']['bytes']
            return spec
        def eng_rp(v):
            # precondition violations inside the encoder (slice bounds / spare capacity) are replayed on the real encoder with 1..17 spare bytes
            if 'encode' in v.site or 'ChunkEncoder' in v.site:
                return {'entry': 'ss_encode_capacity', 'N': N, 'kind': kind, 'mode': 'Client'}
            return rp(v.model or {})
        for p in paths:
            if p.status != 'return':
                ctx.absorb(ex, [p], replay_of=eng_rp)
                continue
            if not ex.check(p.pcs + [p.ret.disc == 0])[0]:
                continue
            p.pcs.append(p.ret.disc == 0)
            wire_buf = p.st['#dst']
            # sender limits (C03 shares them): every sealed payload chunk of the AEAD ciphers is at most 0x3FFF bytes
            p.st['#sctx'] = sctx
            p.st['#server'] = server_payload_codec(prog, N, kind, p.st)
            src = Buf('bytesmut', wire_buf.arr, wire_buf.off, wire_buf.len)
            ex.inputs['src'] = src
            extra = []
            if not legacy and nseg > 1:
                extra.append(z3.UGE(z3.BitVec('cut1', 64), bv64(N + 1 + 8 + 2 + 16)))
            results = c05.drive(ex, dec, [Ref('#server'), Ref('#src')], {'#src': src}, extra, {}, 3 * nseg + 3 * W + 6, c04.inbound_item, nseg=nseg, start=p)
            for q, rel, end in results:
                ctx.absorb(ex, [q], replay_of=eng_rp)
                if end == 'calls':
                    ctx.out.inconclusive.append('decode call bound reached')
                elif end == 'err':
                    ctx.prove(ex, q, F, 'what the real client wrote is refused by the real server decoder', site, replay=rp)
                elif end == 'quiet':
                    ndone += 1
                    ok_first = bool(rel) and rel[0].name == 'ConnectTcp'
                    ctx.prove(ex, q, T if ok_first else F, 'the server decoder does not yield a connect item for what the real client wrote (first item: %s)' % (rel[0].name if rel else 'none'), site, replay=rp)
                    if ok_first:
                        j = fresh('j', BV64)
                        got = rel[0].fields[1]
                        ctx.prove(ex, q, c14.addr_equal(ex, q.st, addr, got, j), 'the server would dial a different target than the one the application requested', site, replay=rp)
                    msgs = [v.fields[0] for v in rel]
                    want = [(b.arr, b.off, b.len) for b in items]
                    prove_concat(ctx, ex, q, msgs, want, 'bytes released by the server differ from the bytes the application wrote', site, replay=rp)
                    if ok_first and nseg == 1:
                        nresp[0] += response_leg(ctx, ex, q, enc, case, N, kind)
        ctx.out.vacuity = [('some composition runs to the end', ndone > 0)] + ([('some response leg runs to the end', nresp[0] > 0)] if nseg == 1 else [])
        ctx.out.samples.append({'composition': 'client tcp::AEADCipherCodec::encode -> server PayloadCodec::decode -> server encode -> client decode', 'cipher': kind, 'write_sizes': list(sizes), 'segments': nseg, 'runs': ndone})
    return job


def response_leg(ctx, ex, q, enc, case, N, kind):
    """the answer: the REAL server encoder (the session that just decoded the request: its request-salt echo, its own salt) writes
    two target writes, the REAL client decoder (the codec object that encoded the request) reads them: released == written"""
    rsizes = (3, 40)
    ritems = [Buf('bytesmut', z3.Array('answer%d' % i, BV64, BV8), bv64(0), bv64(n)) for i, n in enumerate(rsizes)]
    st = q.fork()
    st.status, st.ret = q.status, q.ret
    st.st['#dst2'] = Buf('bytesmut', fresh_bytes('dst2'), bv64(0), bv64(0))
    cipher = Ref('#server', (('field', 2),))
    sess = Ref('#server', (('field', 1),))
    paths = [st]
    for it in ritems:
        nxt = []
        for p in paths:
            for r in ex.resume(p, enc, [cipher, Ref('#sctx'), sess, it, Ref('#dst2')]):
                if r.status == 'return' and ex.check(r.pcs + [r.ret.disc == 0])[0]:
                    r.pcs.append(r.ret.disc == 0)
                    nxt.append(r)
                else:
                    ctx.absorb(ex, [r])
                    if r.status == 'return':
                        ctx.prove(ex, r, r.ret.disc == 0, 'the server encoder refuses a write of the target', enc.name + '@response')
        paths = nxt
    done = 0
    site = case.fn.name + '@response'
    for p in paths:
        wb = p.st['#dst2']
        src2 = Buf('bytesmut', wb.arr, wb.off, wb.len)
        results = c05.drive(ex, case.fn, case.args, {'#src': src2}, [], {}, 10, c05.opt_item, nseg=1, start=p)
        for r, rel, end in results:
            ctx.absorb(ex, [r])
            if end == 'calls':
                ctx.out.inconclusive.append('decode call bound reached (response)')
            elif end == 'err':
                ctx.prove(ex, r, F, 'what the real server answered is refused by the real client decoder', site)
            elif end == 'quiet':
                done += 1
                prove_concat(ctx, ex, r, rel, [(b.arr, b.off, b.len) for b in ritems], 'bytes released to the application differ from the bytes the target wrote', site)
    return done


def padding_grid(ex):
    """random padding lengths from a grid of concrete values (smallest, next, smallest + 60: copies of at most 64 bytes stay explicit stores) instead of one symbolic length"""
    def rr(ex_, p, m, a, func, fr):
        rng = a[1]
        lo, hi = z3.simplify(rng.fields[0][0]), z3.simplify(rng.fields[1][0])
        if not (z3.is_bv_value(lo) and z3.is_bv_value(hi)):
            return None
        vals = sorted(set([lo.as_long(), min(lo.as_long() + 1, hi.as_long()), min(hi.as_long(), lo.as_long() + 60)]))
        pick = fresh('padpick', z3.BitVecSort(8))
        return [dict(cond=pick == i, value=(z3.BitVecVal(v, lo.size()), m.group(1))) for i, v in enumerate(vals)]
    ex.overrides.insert(0, (re.compile(r' as (?:rand::)?Rng>::random_range::<(u16), (?:std::ops::)?RangeInclusive<\w+>>$'), rr))


def c04_salt_cache(ex, N):
    def check_nonce(ex_, p, m, a, fu, fr):
        arr, off, ln = ex_.bytes_view(p.st, a[1])
        seen = F
        for (sa, so, sl) in p.ghost.get('salts', []):
            seen = z3.Or(seen, z3.And(*[z3.Select(sa, so + bv64(i)) == z3.Select(arr, off + bv64(i)) for i in range(N)]))
        return one((z3.simplify(seen), 'bool'))

    def set_nonce(ex_, p, m, a, fu, fr):
        v = ex_.deref_all(p.st, a[1]) if isinstance(a[1], Ref) else a[1]
        return one(U(), apply=lambda q: q.ghost.setdefault('salts', []).append((v.arr, bv64(0), bv64(N))))
    ex.overrides.insert(0, (re.compile(r'Context::<.*>::check_nonce$'), check_nonce))
    ex.overrides.insert(0, (re.compile(r'Context::<.*>::set_nonce$'), set_nonce))


def prove_concat(ctx, ex, p, rel, want, msg, site, replay=None):
    """concat(rel) == concat(want) as byte strings (piece boundaries may differ)"""
    arr, total = c05.concat_view(ex, p, rel)
    warr, wtotal = z3.K(BV64, bvv(0, 8)), bv64(0)
    from ..engine import copy_into
    for (a, o, l) in want:
        warr = copy_into(warr, wtotal, a, o, l)
        wtotal = wtotal + l
    j = fresh('j', BV64)
    return ctx.prove(ex, p, z3.And(total == wtotal, z3.Implies(z3.ULT(j, wtotal), z3.Select(arr, j) == z3.Select(warr, j))), msg, site, replay=replay)


def size_grid(tier, legacy=True, nseg=1):
    g = [(1, 64), (37, 5)]
    if tier == 'thorough':
        if legacy:
            # chunk payload limit 0x3FFF: first chunk = 7-byte address + 16376 bytes exactly fills it
            g += [(0, 1), (16376, 1), (16377, 3), (20000, 1), (5, 16383, 2), (0, 1, 1)]
        else:
            g += [(65494, 1), (65495, 3), (70000, 1), (5, 65501, 2)]
            if nseg == 1:
                # an empty first write makes the 2022 client pad (random length): minutes per job, one segment only
                g += [(0, 1)]
    return g


def jobs(prog, tier):
    js = []
    for (N, kind) in ((16, 'Aes128Gcm'), (32, 'ChaCha20Poly1305'), (16, 'Aead2022Blake3Aes128Gcm'), (32, 'Aead2022Blake3ChaCha20Poly1305')):
        for akind in (('v4', 'domain') if tier != 'thorough' else ('v4', 'domain', 'v6')):
            for nseg in (1, 2):
                for sizes in size_grid(tier, not kind.startswith('Aead2022'), nseg):
                    js.append(('ss request[N=%d,%s,%s,segments=%d,writes=%s]' % (N, kind, akind, nseg, '+'.join(map(str, sizes))), make_ss_request_job(N, kind, akind, tier, nseg, sizes), 1800))
    for akind in ('v4', 'domain'):
        for nseg in (1, 2):
            for sizes in ((0, 5), (7, 33)):
                js.append(('trojan request[%s,segments=%d,writes=%s]' % (akind, nseg, '+'.join(map(str, sizes))), make_trojan_request_job(akind, nseg, sizes), 900))
    return js


# --------------------------------------------------------------------------- Trojan: real client encoder -> real server decoder
def make_trojan_request_job(akind, nseg, sizes):
    def job(ctx):
        from . import c06
        prog = ctx.prog
        case = decoders.trojan_cases(prog)[0]
        ex = case.new_exec(ctx)
        c06.exact_hex_decode(ex)
        digest = case.st0['#self'].fields[0]
        # the client holds the lower-case hex of the same SHA-224 digest the server stores (both hash the configured password)
        hexkey = z3.Array('client_hex_key', BV64, BV8)
        pcs = list(case.pcs)
        for i in range(28):
            b = z3.Select(digest.arr, bv64(i))
            for k, nib in ((0, z3.LShR(b, 4)), (1, b & 0x0f)):
                pcs.append(z3.Select(hexkey, bv64(2 * i + k)) == z3.If(z3.ULT(nib, 10), nib + 0x30, nib + 0x57))
        addr, apcs, ains = c14.sym_address(akind)
        if akind == 'domain':
            addr = Enum(bv64(0), {'Domain': (Buf('string', ains['host'].arr, bv64(0), bv64(9)), addr.payloads['Domain'][1])}, 'Address')
            ains['host'] = addr.payloads['Domain'][0]
            apcs = []
        client = Agg('struct', (Arr(hexkey, 'u8', 56), (bvv(1, 8), 'u8'), addr, Enum(bv64(0), {}, 'CodecState')), 'ClientCodec')
        items = [Buf('bytesmut', z3.Array('write%d' % i, BV64, BV8), bv64(0), bv64(n)) for i, n in enumerate(sizes)]
        enc = prog.find_fn(r'^client::trojan::tcp::<impl at [^>]*>::encode$')
        st0 = dict(case.st0)
        st0.update({'#client': client, '#dst': Buf('bytesmut', fresh_bytes('dst'), bv64(0), bv64(0))})
        paths = ex.run(enc, [Ref('#client'), items[0], Ref('#dst')], pcs + apcs, st0=st0)
        for it in items[1:]:
            nxt = []
            for p in paths:
                if p.status == 'return' and ex.check(p.pcs + [p.ret.disc == 0])[0]:
                    p.pcs.append(p.ret.disc == 0)
                    nxt += ex.resume(p, enc, [Ref('#client'), it, Ref('#dst')])
                else:
                    ctx.absorb(ex, [p])
            paths = nxt
        ex.inputs = {'write%d' % i: items[i] for i in range(len(items))}
        ex.inputs.update(ains)
        site = case.fn.name + '@framed'
        ndone = 0
        for p in paths:
            if p.status != 'return' or not ex.check(p.pcs + [p.ret.disc == 0])[0]:
                ctx.absorb(ex, [p])
                continue
            p.pcs.append(p.ret.disc == 0)
            wb = p.st['#dst']
            src = Buf('bytesmut', wb.arr, wb.off, wb.len)
            results = c05.drive(ex, case.fn, case.args, {'#src': src}, [], {}, 3 * nseg + 4, c04.inbound_item, nseg=nseg, start=p)
            for q, rel, end in results:
                ctx.absorb(ex, [q])
                if end == 'calls':
                    ctx.out.inconclusive.append('decode call bound reached')
                elif end == 'err':
                    ctx.prove(ex, q, F, 'what the real Trojan client wrote is refused by the real server decoder', site)
                elif end == 'quiet':
                    ndone += 1
                    ok_first = bool(rel) and rel[0].name == 'ConnectTcp'
                    ctx.prove(ex, q, T if ok_first else F, 'the Trojan server does not yield a connect item for what the real client wrote', site)
                    if ok_first:
                        j = fresh('j', BV64)
                        ctx.prove(ex, q, c14.addr_equal(ex, q.st, addr, rel[0].fields[1], j), 'the Trojan server would dial a different target than the one requested', site)
                    prove_concat(ctx, ex, q, [v.fields[0] for v in rel], [(b.arr, b.off, b.len) for b in items], 'bytes released by the Trojan server differ from the bytes written', site)
        ctx.out.vacuity = [('some composition runs to the end', ndone > 0)]
        ctx.out.samples.append({'composition': 'client trojan::tcp::ClientCodec::encode -> server trojan::ServerCodec::decode', 'write_sizes': list(sizes), 'segments': nseg, 'address': akind})
    return job
