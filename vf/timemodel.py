"""std::time contracts: SystemTime / Duration as (seconds, nanoseconds) pairs; the system clock is one symbolic instant per path
(`ex.clock`), constrained only by 0 <= nanos < 10^9 and |secs| < 2^62 (so that second arithmetic cannot wrap)."""
import re
import z3

from .values import *  # noqa
from .models import model, one, B, target_ref

NS = 1000000000


def dur(secs, nanos):
    return Agg('struct', ((secs, 'u64'), (nanos, 'u32')), 'Duration')


def inst(secs, nanos):
    return Agg('struct', ((secs, 'i64'), (nanos, 'u32')), 'SystemTime')


def clock_of(ex):
    if 'secs' not in ex.clock:
        ex.clock['secs'] = z3.BitVec('clock_secs', 64)
        ex.clock['nanos'] = z3.BitVec('clock_nanos', 32)
    return ex.clock['secs'], ex.clock['nanos']


@model(r'^(?:std::time::)?SystemTime::now$')
def _st_now(ex, p, m, a, func, fr):
    if not hasattr(ex, 'clock'):
        ex.clock = {}
    s, n = clock_of(ex)
    return one(inst(s, n), assume=z3.And(z3.ULT(n, NS), s < (1 << 62), s > -(1 << 62)))


def _sub(a, b):
    """a - b for (secs, nanos) pairs with a >= b"""
    (sa, _), (na, _) = a.fields
    (sb, _), (nb, _) = b.fields
    borrow = z3.ULT(na, nb)
    return dur(z3.If(borrow, sa - sb - 1, sa - sb), z3.If(borrow, na + NS - nb, na - nb))


@model(r'^(?:std::time::)?SystemTime::duration_since$')
def _st_duration_since(ex, p, m, a, func, fr):
    x = B(ex, p, a[0])
    y = B(ex, p, a[1]) if isinstance(a[1], Ref) else a[1]
    (sx, _), (nx, _) = x.fields
    (sy, _), (ny, _) = y.fields
    ge = z3.Or(sx > sy, z3.And(sx == sy, z3.UGE(nx, ny)))
    return [dict(cond=ge, value=res_ok(_sub(x, y))), dict(cond=z3.Not(ge), value=res_err(Agg('struct', (_sub(y, x),), 'SystemTimeError')))]


@model(r'^(?:std::time::)?SystemTimeError::duration$')
def _ste_duration(ex, p, m, a, func, fr):
    v = B(ex, p, a[0])
    return one(v.fields[0])


@model(r'^<(?:std::time::)?SystemTime as (?:std::ops::)?(Add|Sub)<(?:std::time::)?Duration>>::(add|sub)$')
def _st_add(ex, p, m, a, func, fr):
    (s, _), (n, _) = a[0].fields
    (ds, _), (dn, _) = a[1].fields
    if m.group(1) == 'Add':
        carry = z3.UGE(n + dn, NS)
        return one(inst(z3.If(carry, s + ds + 1, s + ds), z3.If(carry, n + dn - NS, n + dn)))
    borrow = z3.ULT(n, dn)
    return one(inst(z3.If(borrow, s - ds - 1, s - ds), z3.If(borrow, n + NS - dn, n - dn)))


@model(r'^(?:std::time::)?Duration::(from_secs|from_millis|from_micros|from_nanos|new)$')
def _dur_from(ex, p, m, a, func, fr):
    op = m.group(1)
    x = a[0][0]
    if op == 'from_secs':
        return one(dur(x, bvv(0, 32)))
    if op == 'new':
        return one(dur(x, a[1][0]))
    per = {'from_millis': 1000, 'from_micros': 1000000, 'from_nanos': NS}[op]
    return one(dur(z3.UDiv(x, bv64(per)), z3.Extract(31, 0, z3.URem(x, bv64(per)) * bv64(NS // per))))


@model(r'^(?:std::time::)?Duration::(as_secs|subsec_nanos|as_millis|subsec_millis)$')
def _dur_as(ex, p, m, a, func, fr):
    v = B(ex, p, a[0])
    (s, _), (n, _) = v.fields
    op = m.group(1)
    if op == 'as_secs':
        return one((s, 'u64'))
    if op == 'subsec_nanos':
        return one((n, 'u32'))
    if op == 'subsec_millis':
        return one((z3.UDiv(n, bvv(1000000, 32)), 'u32'))
    return one((z3.ZeroExt(64, s) * bvv(1000, 128) + z3.ZeroExt(96, z3.UDiv(n, bvv(1000000, 32))), 'u128'))


@model(r'^(?:std::time::)?SystemTime::(checked_add|checked_sub)$')
def _st_checked(ex, p, m, a, func, fr):
    x = B(ex, p, a[0]) if isinstance(a[0], Ref) else a[0]
    (s, _), (n, _) = x.fields
    (ds, _), (dn, _) = a[1].fields
    if m.group(1) == 'checked_add':
        carry = z3.UGE(n + dn, NS)
        ns = z3.If(carry, s + ds + 1, s + ds)
        ok = z3.And(ds >= 0, z3.BVAddNoOverflow(s, ds, True), ns >= s)
        return [dict(cond=ok, value=opt_some(inst(ns, z3.If(carry, n + dn - NS, n + dn)))), dict(cond=z3.Not(ok), value=opt_none())]
    borrow = z3.ULT(n, dn)
    ns = z3.If(borrow, s - ds - 1, s - ds)
    ok = z3.And(ds >= 0, z3.BVSubNoUnderflow(s, ds, True), ns <= s)
    return [dict(cond=ok, value=opt_some(inst(ns, z3.If(borrow, n + NS - dn, n - dn)))), dict(cond=z3.Not(ok), value=opt_none())]
