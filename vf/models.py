"""Call-model registry of Engine M: contracts for std / bytes / core items the repo code calls.

Each model is `h(ex, p, m, args, func, fr) -> [outcome, ...] | None`.  An outcome is a dict:
  cond   z3 Bool under which this outcome happens (default True)
  value  returned value
  oblig  [(z3 Bool, text)] preconditions whose negation is a panic in the real function
  apply  callable(path) mutating path.st / path.ghost after the fork
  panic  text: this outcome diverges with a panic (a violation if reachable)
  inline (Fn, args, post) run a repo function (e.g. a closure body) in place of the call
"""
import re
import z3

from .mir import INT_BITS, SIGNED, strip_generics
from .values import *  # noqa
from .engine import Inconclusive, copy_into

REGISTRY = []
PIECES = {}   # array ast id -> (array, base offset, [(arr, off, len)]) for buffers built by extend_from_slice


def model(pattern):
    rx = re.compile(pattern)

    def deco(f):
        REGISTRY.append((rx, f))
        return f
    return deco


_EFFECT_FREE = re.compile(
    r'(^|::)(fmt::|format$|format_err|must_use|Arguments|Argument::|anyhow_kind|Adhoc::new|Trait::new|kind::|log::__private_api|loc$|ByteStr::new|'
    r'encode_string|to_string|Error::msg|anyhow::Error|from_str_nonconst|from_str$|new_display|new_debug|new_v1|Display>::fmt|Debug>::fmt|'
    r'to_owned$|clone$|Error as From|into_error|context|Duration::from_secs|type_id|size_hint|eq$|ne$|cmp$|borrow$|as_ref$|Location::caller|'
    r'concat$|SocketAddrV4::new|SocketAddrV6::new|SocketAddr|Ipv4Addr|Ipv6Addr|as_str$|as_bytes$|len$|is_empty$|ParseIntError|fmt$|write_str$|write_fmt$)')


def effect_free(g):
    return bool(_EFFECT_FREE.search(g))


def B(ex, p, v):
    return ex.deref_all(p.st, v)


def U():
    return unit()


def one(value, **kw):
    d = dict(value=value)
    d.update(kw)
    return [d]


def set_ref(ex, p, r, val):
    r = ex.final_ref(p.st, r) if isinstance(ex.load(p.st, r.base, r.proj), Ref) else r
    ex.store(p.st, r.base, r.proj, val)


def target_ref(ex, p, r):
    """the Ref whose target is the (non-reference) object"""
    return ex.final_ref(p.st, r)


# --------------------------------------------------------------------------- ranges
@model(r'^(?:std|core)::ops::RangeInclusive::<\w+>::new$')
def _ri_new(ex, p, m, a, func, fr):
    return one(Agg('struct', (a[0], a[1], (F, 'bool')), 'RangeInclusive'))


@model(r'^<(?:(?:std|core)::ops::)?(?:RangeInclusive|Range)<\w+> as (?:std::iter::)?IntoIterator>::into_iter$')
def _r_into_iter(ex, p, m, a, func, fr):
    return one(a[0])


@model(r'^<(?:(?:std|core)::ops::)?RangeInclusive<\w+> as (?:std::iter::)?Iterator>::next$')
def _ri_next(ex, p, m, a, func, fr):
    r = a[0]
    cur = B(ex, p, r)
    (s0, ty), (e0, _), (exh, _) = cur.fields
    sg = ty in SIGNED
    le = (s0 <= e0) if sg else z3.ULE(s0, e0)
    lt = (s0 < e0) if sg else z3.ULT(s0, e0)
    none_c = z3.Or(exh, z3.Not(le))
    onev = z3.BitVecVal(1, s0.size())
    tr = target_ref(ex, p, r)

    def upd(nv):
        return lambda q: ex.store(q.st, tr.base, tr.proj, nv)
    return [dict(cond=none_c, value=opt_none()),
            dict(cond=z3.And(z3.Not(none_c), lt), value=opt_some((s0, ty)), apply=upd(Agg('struct', ((s0 + onev, ty), (e0, ty), (exh, 'bool')), 'RangeInclusive'))),
            dict(cond=z3.And(z3.Not(none_c), z3.Not(lt)), value=opt_some((s0, ty)), apply=upd(Agg('struct', ((s0, ty), (e0, ty), (T, 'bool')), 'RangeInclusive')))]


@model(r'^<(?:(?:std|core)::ops::)?Range<\w+> as (?:std::iter::)?Iterator>::next$')
def _r_next(ex, p, m, a, func, fr):
    r = a[0]
    cur = B(ex, p, r)
    (s0, ty), (e0, _) = cur.fields
    lt = (s0 < e0) if ty in SIGNED else z3.ULT(s0, e0)
    tr = target_ref(ex, p, r)
    return [dict(cond=z3.Not(lt), value=opt_none()),
            dict(cond=lt, value=opt_some((s0, ty)), apply=lambda q: ex.store(q.st, tr.base, tr.proj, Agg('struct', ((s0 + 1, ty), (e0, ty)), 'Range')))]


# --------------------------------------------------------------------------- integers
@model(r'^core::num::<impl (u\d+|usize|i\d+|isize)>::(overflowing_add|overflowing_sub|wrapping_add|wrapping_sub|wrapping_mul|checked_add|checked_sub|'
       r'saturating_sub|saturating_add|abs_diff|abs|min|max|to_be_bytes|to_le_bytes|from_be_bytes|from_le_bytes|from_be|to_be|swap_bytes|pow|is_power_of_two|'
       r'from_str_radix|leading_zeros|trailing_zeros|count_ones|rotate_left|rotate_right|unsigned_abs|wrapping_neg|checked_mul)$')
def _int_ops(ex, p, m, a, func, fr):
    ty, op = m.group(1), m.group(2)
    sg = ty in SIGNED
    w = INT_BITS[ty]
    if op == 'from_str_radix':
        return None
    if isinstance(a[0], Opaque):
        return one(Opaque('int op on opaque'))
    if op in ('from_be_bytes', 'from_le_bytes'):
        arr, off, _n = ex.bytes_view(p.st, a[0])
        bs = [z3.Select(arr, off + bv64(i)) for i in range(w // 8)]
        if op == 'from_le_bytes':
            bs = bs[::-1]
        return one((z3.Concat(*bs) if len(bs) > 1 else bs[0], ty))
    x = a[0][0]
    if op in ('to_be_bytes', 'to_le_bytes'):
        arr = z3.K(BV64, bvv(0, 8))
        k = w // 8
        for i in range(k):
            hi = 8 * (k - i) - 1 if op == 'to_be_bytes' else 8 * i + 7
            arr = z3.Store(arr, bv64(i), z3.Extract(hi, hi - 7, x))
        return one(Arr(arr, 'u8', k))
    if op in ('from_be', 'to_be', 'swap_bytes'):
        k = w // 8
        bs = [z3.Extract(8 * i + 7, 8 * i, x) for i in range(k)]
        return one((z3.Concat(*bs) if k > 1 else x, ty))
    if op == 'abs':
        mn = bvv(-(1 << (w - 1)), w)
        r = z3.If(x < 0, -x, x)
        if ex.release_mode:
            return one((r, ty))
        return one((r, ty), oblig=[(x != mn, 'attempt to negate with overflow (abs of MIN)')])
    if op == 'unsigned_abs':
        return one((z3.If(x < 0, -x, x), 'u' + ty[1:]))
    if op == 'wrapping_neg':
        return one((-x, ty))
    if op == 'is_power_of_two':
        return one((z3.And(x != 0, (x & (x - 1)) == 0), 'bool'))
    if op in ('leading_zeros', 'trailing_zeros', 'count_ones', 'rotate_left', 'rotate_right', 'pow'):
        return one(Opaque(op))
    y = a[1][0]
    if op == 'overflowing_add':
        ov = z3.Not(z3.BVAddNoOverflow(x, y, sg)) if not sg else z3.Or(z3.Not(z3.BVAddNoOverflow(x, y, True)), z3.Not(z3.BVAddNoUnderflow(x, y)))
        return one(Agg('tuple', ((x + y, ty), (ov, 'bool'))))
    if op == 'overflowing_sub':
        ov = z3.Not(z3.BVSubNoUnderflow(x, y, sg)) if not sg else z3.Or(z3.Not(z3.BVSubNoOverflow(x, y)), z3.Not(z3.BVSubNoUnderflow(x, y, True)))
        return one(Agg('tuple', ((x - y, ty), (ov, 'bool'))))
    if op == 'wrapping_add':
        return one((x + y, ty))
    if op == 'wrapping_sub':
        return one((x - y, ty))
    if op == 'wrapping_mul':
        return one((x * y, ty))
    if op == 'checked_add':
        ok = z3.BVAddNoOverflow(x, y, sg) if not sg else z3.And(z3.BVAddNoOverflow(x, y, True), z3.BVAddNoUnderflow(x, y))
        return [dict(cond=ok, value=opt_some((x + y, ty))), dict(cond=z3.Not(ok), value=opt_none())]
    if op == 'checked_sub':
        ok = z3.BVSubNoUnderflow(x, y, sg) if not sg else z3.And(z3.BVSubNoOverflow(x, y), z3.BVSubNoUnderflow(x, y, True))
        return [dict(cond=ok, value=opt_some((x - y, ty))), dict(cond=z3.Not(ok), value=opt_none())]
    if op == 'checked_mul':
        ok = z3.BVMulNoOverflow(x, y, sg)
        return [dict(cond=ok, value=opt_some((x * y, ty))), dict(cond=z3.Not(ok), value=opt_none())]
    if op == 'saturating_sub' and not sg:
        return one((z3.If(z3.ULT(x, y), bvv(0, w), x - y), ty))
    if op == 'saturating_add' and not sg:
        return one((z3.If(z3.BVAddNoOverflow(x, y, False), x + y, bvv((1 << w) - 1, w)), ty))
    if op == 'abs_diff':
        lt = (x < y) if sg else z3.ULT(x, y)
        return one((z3.If(lt, y - x, x - y), ('u' + ty[1:]) if sg else ty))
    if op in ('min', 'max'):
        lt = (x < y) if sg else z3.ULT(x, y)
        return one((z3.If(lt, x, y) if op == 'min' else z3.If(lt, y, x), ty))
    return None


@model(r'^<(u\d+|usize|i\d+|isize) as (?:std::cmp::)?Ord>::(min|max|cmp)$')
def _ord_minmax(ex, p, m, a, func, fr):
    ty, op = m.group(1), m.group(2)
    if op == 'cmp':
        x, y = B(ex, p, a[0])[0], B(ex, p, a[1])[0]
        lt = (x < y) if ty in SIGNED else z3.ULT(x, y)
        return one(Enum(z3.If(lt, bvv(-1, 64), z3.If(x == y, bvv(0, 64), bvv(1, 64))), {}, 'Ordering'))
    x, y = a[0][0], a[1][0]
    lt = (x < y) if ty in SIGNED else z3.ULT(x, y)
    return one((z3.If(lt, x, y) if op == 'min' else z3.If(lt, y, x), ty))


@model(r'^(?:std|core)::cmp::(min|max)::<(\w+)>$')
def _cmp_minmax(ex, p, m, a, func, fr):
    op, ty = m.group(1), m.group(2)
    if ty not in INT_BITS:
        return None
    x, y = a[0][0], a[1][0]
    lt = (x < y) if ty in SIGNED else z3.ULT(x, y)
    return one((z3.If(lt, x, y) if op == 'min' else z3.If(lt, y, x), ty))


@model(r'^(?:std|core)::mem::size_of::<(.+)>$')
def _size_of(ex, p, m, a, func, fr):
    ty = m.group(1)
    if ty in INT_BITS:
        return one((bv64(INT_BITS[ty] // 8), 'usize'))
    return None


@model(r'^<(u\d+|usize|i\d+|isize) as (?:std::convert::)?(From|Into)<(u\d+|usize|i\d+|isize)>>::(from|into)$')
def _int_from(ex, p, m, a, func, fr):
    if m.group(2) == 'From':
        dst = m.group(1)
    else:
        dst = m.group(3)
    return one(ex.cast_int(a[0], dst))


@model(r'^<(u\d+|usize|i\d+|isize|bool|char) as (?:std::cmp::)?PartialEq>::(eq|ne)$')
def _int_eq(ex, p, m, a, func, fr):
    x, y = B(ex, p, a[0]), B(ex, p, a[1])
    e = x[0] == y[0]
    return one((e if m.group(2) == 'eq' else z3.Not(e), 'bool'))


@model(r'^<(u\d+|usize|i\d+|isize) as (?:std::cmp::)?PartialOrd>::(lt|le|gt|ge)$')
def _int_ord(ex, p, m, a, func, fr):
    ty, op = m.group(1), m.group(2)
    x, y = B(ex, p, a[0])[0], B(ex, p, a[1])[0]
    sg = ty in SIGNED
    r = {'lt': (x < y) if sg else z3.ULT(x, y), 'le': (x <= y) if sg else z3.ULE(x, y), 'gt': (x > y) if sg else z3.UGT(x, y),
         'ge': (x >= y) if sg else z3.UGE(x, y)}[op]
    return one((r, 'bool'))


# --------------------------------------------------------------------------- logging (taken as disabled)
@model(r'^<(?:log::)?Level as (?:std::cmp::)?PartialOrd<(?:log::)?LevelFilter>>::(le|lt|ge|gt)$')
def _log_level(ex, p, m, a, func, fr):
    return one((F, 'bool'))


@model(r'^(?:log::)?max_level$')
def _log_max(ex, p, m, a, func, fr):
    return one(Opaque('log level'))


# --------------------------------------------------------------------------- Try / FromResidual / Option / Result
def _disc(v):
    if isinstance(v, Enum):
        return v.disc
    raise Inconclusive('enum expected, got %r' % (v,))


def _payload(v, var):
    fs = v.payloads.get(var)
    if not fs:
        return Opaque('payload ' + var)
    return fs[0]


@model(r'^<(?:std::result::)?Result<.*> as (?:std::ops::)?Try>::branch$')
def _res_branch(ex, p, m, a, func, fr):
    res = a[0]
    if isinstance(res, Opaque):
        raise Inconclusive('Try::branch on opaque: ' + res.why)
    d = _disc(res)
    return [dict(cond=d == 0, value=Enum(bv64(0), {'Continue': (_payload(res, 'Ok'),)}, 'ControlFlow')),
            dict(cond=d != 0, value=Enum(bv64(1), {'Break': (res_err(_payload(res, 'Err')),)}, 'ControlFlow'))]


@model(r'^<(?:std::option::)?Option<.*> as (?:std::ops::)?Try>::branch$')
def _opt_branch(ex, p, m, a, func, fr):
    res = a[0]
    if isinstance(res, Opaque):
        raise Inconclusive('Try::branch on opaque: ' + res.why)
    d = _disc(res)
    return [dict(cond=d != 0, value=Enum(bv64(0), {'Continue': (_payload(res, 'Some'),)}, 'ControlFlow')),
            dict(cond=d == 0, value=Enum(bv64(1), {'Break': (opt_none(),)}, 'ControlFlow'))]


@model(r'^<(?:std::result::)?Result<.*> as (?:std::ops::)?FromResidual<.*>>::from_residual$')
def _res_from_residual(ex, p, m, a, func, fr):
    return one(res_err(Opaque('error')))


@model(r'^<(?:std::option::)?Option<.*> as (?:std::ops::)?FromResidual<.*>>::from_residual$')
def _opt_from_residual(ex, p, m, a, func, fr):
    return one(opt_none())


@model(r'^(?:std::option::)?Option::<.*>::(is_some|is_none)$')
def _opt_is(ex, p, m, a, func, fr):
    v = B(ex, p, a[0])
    if isinstance(v, Opaque):
        raise Inconclusive('Option::is_* on opaque')
    d = _disc(v)
    return one(((d != 0) if m.group(1) == 'is_some' else (d == 0), 'bool'))


@model(r'^(?:std::result::)?Result::<.*>::(is_ok|is_err)$')
def _res_is(ex, p, m, a, func, fr):
    v = B(ex, p, a[0])
    d = _disc(v)
    return one(((d == 0) if m.group(1) == 'is_ok' else (d != 0), 'bool'))


@model(r'^(?:std::option::)?Option::<.*>::(unwrap|expect)$')
def _opt_unwrap(ex, p, m, a, func, fr):
    v = a[0]
    if isinstance(v, Opaque):
        return one(Opaque('unwrap of opaque'))
    d = _disc(v)
    return [dict(cond=d != 0, value=_payload(v, 'Some')), dict(cond=d == 0, panic='Option::%s on None' % m.group(1))]


@model(r'^(?:std::result::)?Result::<.*>::(unwrap|expect)$')
def _res_unwrap(ex, p, m, a, func, fr):
    v = a[0]
    if isinstance(v, Opaque):
        return one(Opaque('unwrap of opaque'))
    d = _disc(v)
    return [dict(cond=d == 0, value=_payload(v, 'Ok')), dict(cond=d != 0, panic='Result::%s on Err' % m.group(1))]


@model(r'^(?:std::option::)?Option::<.*>::(as_ref|as_mut)$')
def _opt_as_ref(ex, p, m, a, func, fr):
    r = a[0]
    v = B(ex, p, r)
    if isinstance(v, Opaque):
        return one(Opaque('as_ref of opaque'))
    d = _disc(v)
    tr = target_ref(ex, p, r)
    inner = Ref(tr.base, tr.proj + (('downcast', 'Some'), ('field', 0)))
    return [dict(cond=d != 0, value=opt_some(inner)), dict(cond=d == 0, value=opt_none())]


@model(r'^(?:std::option::)?Option::<.*>::as_deref$')
def _opt_as_deref(ex, p, m, a, func, fr):
    r = a[0]
    v = B(ex, p, r)
    d = _disc(v)
    tr = target_ref(ex, p, r)
    inner = Ref(tr.base, tr.proj + (('downcast', 'Some'), ('field', 0)))
    return [dict(cond=d != 0, value=opt_some(inner)), dict(cond=d == 0, value=opt_none())]


@model(r'^(?:std::option::)?Option::<.*>::take$')
def _opt_take(ex, p, m, a, func, fr):
    r = a[0]
    v = B(ex, p, r)
    tr = target_ref(ex, p, r)
    return one(v, apply=lambda q: ex.store(q.st, tr.base, tr.proj, opt_none()))


@model(r'^(?:std::option::)?Option::<.*>::(ok_or|ok_or_else)::<.*>$')
def _opt_ok_or(ex, p, m, a, func, fr):
    v = a[0]
    d = _disc(v)
    return [dict(cond=d != 0, value=res_ok(_payload(v, 'Some'))), dict(cond=d == 0, value=res_err(Opaque('ok_or error')))]


@model(r'^(?:std::option::)?Option::<.*>::(unwrap_or|unwrap_or_default)$')
def _opt_unwrap_or(ex, p, m, a, func, fr):
    v = a[0]
    d = _disc(v)
    if m.group(1) == 'unwrap_or_default':
        return None
    return [dict(cond=d != 0, value=_payload(v, 'Some')), dict(cond=d == 0, value=a[1])]


def _closure_fn(ex, fr, cl, func):
    """resolve a closure value to its repo body"""
    if isinstance(cl, Ref):
        return None
    name = getattr(cl, 'name', None)
    if name is None:
        return None
    cm = re.search(r'\{closure@[^}]*\}', name)
    if cm:
        f = ex.prog.closures.get((fr.fn.crate, cm.group(0)))
        if f is None:
            for (cr, k), v in ex.prog.closures.items():
                if k == cm.group(0):
                    f = v
        if f is not None:
            return f
    mm = re.match(r'^\{closure@(.+?):(\d+):(\d+): (\d+):(\d+)\}$', name)
    if mm:
        # find the closure body by source span: "fn path::{closure#k}" whose dump has the same span in a preceding comment is not
        # available; match by enclosing function + index order instead
        path, l1 = mm.group(1), int(mm.group(2))
        cands = [f for f in ex.prog.fns if '{closure#' in f.name and f.crate == fr.fn.crate]
        best = None
        for f in cands:
            span = ex.prog.texts[f.crate].split('\n')[f.line - 1] if f.line > 0 else ''
            if ('%s:%d:%d' % (path, l1, int(mm.group(3)))) in span:
                best = f
                break
        if best is None:
            # fall back: closure of the calling function, by order of appearance
            encl = [f for f in cands if f.name.startswith(strip_generics(fr.fn.name) + '::{closure#') or f.name.startswith(fr.fn.name + '::{closure#')]
            if len(encl) == 1:
                best = encl[0]
        return best
    mm = re.match(r'^(.*::\{closure#\d+\})$', name)
    if mm:
        return ex.prog.resolve(name, fr.fn.crate)
    return None


@model(r'^(?:std::option::)?Option::<.*>::(is_some_and|is_none_or|map|and_then|map_or|filter)::<.*>$')
def _opt_closure(ex, p, m, a, func, fr):
    op = m.group(1)
    v = a[0]
    if isinstance(v, Opaque):
        raise Inconclusive('Option::%s on opaque' % op)
    d = _disc(v)
    cl = a[-1]
    body = _closure_fn(ex, fr, cl, func)
    if body is None:
        if op == 'map':
            return [dict(cond=d != 0, value=opt_some(Opaque('mapped'))), dict(cond=d == 0, value=opt_none())]
        raise Inconclusive('closure body not found for ' + func)
    x = _payload(v, 'Some')
    if op == 'is_some_and':
        return [dict(cond=d == 0, value=(F, 'bool')), dict(cond=d != 0, inline=(body, [cl, x], None))]
    if op == 'is_none_or':
        return [dict(cond=d == 0, value=(T, 'bool')), dict(cond=d != 0, inline=(body, [cl, x], None))]
    if op == 'map':
        return [dict(cond=d == 0, value=opt_none()), dict(cond=d != 0, inline=(body, [cl, x], lambda ex_, q, r: opt_some(r)))]
    if op == 'and_then':
        return [dict(cond=d == 0, value=opt_none()), dict(cond=d != 0, inline=(body, [cl, x], None))]
    if op == 'map_or':
        # map_or(default, f)
        return [dict(cond=d == 0, value=a[1]), dict(cond=d != 0, inline=(body, [cl, x], None))]
    if op == 'filter':
        xr = x if isinstance(x, Ref) else p.alloc(x, 'optval')
        return [dict(cond=d == 0, value=opt_none()),
                dict(cond=d != 0, inline=(body, [cl, xr], lambda ex_, q, r: Enum(z3.If(r[0], bv64(1), bv64(0)), {'Some': (x,)}, 'Option')))]
    return None


@model(r'^(?:std::result::)?Result::<.*>::map_err::<.*>$')
def _res_map_err(ex, p, m, a, func, fr):
    res = a[0]
    if isinstance(res, Opaque):
        raise Inconclusive('map_err on opaque')
    d = _disc(res)
    return [dict(cond=d == 0, value=res), dict(cond=d != 0, value=res_err(Opaque('mapped err')))]


@model(r'^(?:std::result::)?Result::<.*>::(ok|err)$')
def _res_ok(ex, p, m, a, func, fr):
    res = a[0]
    d = _disc(res)
    if m.group(1) == 'ok':
        return [dict(cond=d == 0, value=opt_some(_payload(res, 'Ok'))), dict(cond=d != 0, value=opt_none())]
    return [dict(cond=d != 0, value=opt_some(_payload(res, 'Err'))), dict(cond=d == 0, value=opt_none())]


@model(r'^(?:std::result::)?Result::<.*>::map::<.*>$')
def _res_map(ex, p, m, a, func, fr):
    res = a[0]
    d = _disc(res)
    cl = a[-1]
    body = _closure_fn(ex, fr, cl, func)
    if body is None:
        return [dict(cond=d == 0, value=res_ok(Opaque('mapped'))), dict(cond=d != 0, value=res)]
    return [dict(cond=d != 0, value=res), dict(cond=d == 0, inline=(body, [cl, _payload(res, 'Ok')], lambda ex_, q, r: res_ok(r)))]


@model(r'^<.* as (?:std::default::)?Default>::default$')
def _default(ex, p, m, a, func, fr):
    g = func
    if re.match(r'^<(?:std::option::)?Option<', g):
        return one(opt_none())
    mm = re.match(r'^<(u\d+|usize|i\d+|isize) as', g)
    if mm:
        return one((bvv(0, INT_BITS[mm.group(1)]), mm.group(1)))
    if g.startswith('<bool as'):
        return one((F, 'bool'))
    return None


# --------------------------------------------------------------------------- bytes crate
_BUFTY = r'(?:&mut )?(?:\w+::)*(?:BytesMut|Bytes)'


@model(r'^<' + _BUFTY + r' as (?:\w+::)*Buf>::get_(u8|u16|u32|u64|u128|i8|i16|i32|i64|u16_le|u32_le|u64_le)$')
def _buf_get(ex, p, m, a, func, fr):
    r = a[0]
    tr = target_ref(ex, p, r)
    b = ex.load(p.st, tr.base, tr.proj)
    t = m.group(1)
    le = t.endswith('_le')
    ty = t[:-3] if le else t
    k = INT_BITS[ty] // 8
    bs = [z3.Select(b.arr, b.off + bv64(i)) for i in range(k)]
    if le:
        bs = bs[::-1]
    val = (z3.Concat(*bs) if k > 1 else bs[0], ty)
    nb = b.with_(off=b.off + bv64(k), len=b.len - bv64(k))
    return one(val, oblig=[(z3.UGE(b.len, bv64(k)), 'bytes: get_%s needs %d bytes (buffer under-run)' % (t, k))],
               apply=lambda q: ex.store(q.st, tr.base, tr.proj, nb))


@model(r'^(?:\w+::)*(BytesMut|Bytes)::(split_to|split_off)$')
def _split(ex, p, m, a, func, fr):
    r = a[0]
    tr = target_ref(ex, p, r)
    b = ex.load(p.st, tr.base, tr.proj)
    n = a[1][0]
    if m.group(2) == 'split_to':
        ret = Buf(b.kind, b.arr, b.off, n)
        rest = b.with_(off=b.off + n, len=b.len - n)
        msg = 'bytes: split_to out of bounds'
    else:
        ret = Buf(b.kind, b.arr, b.off + n, b.len - n)
        rest = b.with_(len=n)
        msg = 'bytes: split_off out of bounds'
    return one(ret, oblig=[(z3.ULE(n, b.len), msg)], apply=lambda q: ex.store(q.st, tr.base, tr.proj, rest))


@model(r'^<' + _BUFTY + r' as (?:\w+::)*Buf>::advance$')
def _advance(ex, p, m, a, func, fr):
    r = a[0]
    tr = target_ref(ex, p, r)
    b = ex.load(p.st, tr.base, tr.proj)
    n = a[1][0]
    nb = b.with_(off=b.off + n, len=b.len - n)
    return one(U(), oblig=[(z3.ULE(n, b.len), 'bytes: advance past remaining')], apply=lambda q: ex.store(q.st, tr.base, tr.proj, nb))


@model(r'^(?:<' + _BUFTY + r' as (?:\w+::)*Buf>::remaining|(?:\w+::)*(?:BytesMut|Bytes)::len|<' + _BUFTY + r' as (?:\w+::)*BufMut>::remaining_mut)$')
def _remaining(ex, p, m, a, func, fr):
    if func.endswith('remaining_mut'):
        return one((bvv((1 << 63) - 1, 64), 'usize'))
    return one((B(ex, p, a[0]).len, 'usize'))


@model(r'^<' + _BUFTY + r' as (?:\w+::)*Buf>::has_remaining$')
def _has_remaining(ex, p, m, a, func, fr):
    return one((B(ex, p, a[0]).len != bv64(0), 'bool'))


@model(r'^(?:\w+::)*(?:BytesMut|Bytes)::is_empty$')
def _is_empty(ex, p, m, a, func, fr):
    return one((B(ex, p, a[0]).len == bv64(0), 'bool'))


@model(r'^<' + _BUFTY + r' as (?:\w+::)*Buf>::chunk$')
def _chunk(ex, p, m, a, func, fr):
    b = B(ex, p, a[0])
    return one(Buf('slice', b.arr, b.off, b.len))


@model(r'^<' + _BUFTY + r' as (?:\w+::)*Buf>::copy_to_slice$')
def _copy_to_slice(ex, p, m, a, func, fr):
    r = a[0]
    tr = target_ref(ex, p, r)
    b = ex.load(p.st, tr.base, tr.proj)
    dst = ex.as_sref(p.st, a[1])
    n = dst.len
    nb = b.with_(off=b.off + n, len=b.len - n)

    def app(q):
        ex.bytes_fill(q.st, dst, b.arr, b.off, n)
        ex.store(q.st, tr.base, tr.proj, nb)
    return one(U(), oblig=[(z3.UGE(b.len, n), 'bytes: copy_to_slice needs more bytes than remaining')], apply=app)


@model(r'^<' + _BUFTY + r' as (?:\w+::)*Buf>::copy_to_bytes$')
def _copy_to_bytes(ex, p, m, a, func, fr):
    r = a[0]
    tr = target_ref(ex, p, r)
    b = ex.load(p.st, tr.base, tr.proj)
    n = a[1][0]
    nb = b.with_(off=b.off + n, len=b.len - n)
    return one(Buf('bytes', b.arr, b.off, n), oblig=[(z3.ULE(n, b.len), 'bytes: copy_to_bytes past remaining')],
               apply=lambda q: ex.store(q.st, tr.base, tr.proj, nb))


@model(r'^(?:\w+::)*BytesMut::(new|with_capacity)$')
def _bm_new(ex, p, m, a, func, fr):
    return one(Buf('bytesmut', fresh_bytes('newbuf'), bv64(0), bv64(0)))


@model(r'^(?:\w+::)*Bytes::new$')
def _b_new(ex, p, m, a, func, fr):
    return one(Buf('bytes', fresh_bytes('newbuf'), bv64(0), bv64(0)))


@model(r'^(?:\w+::)*BytesMut::(reserve|clear|truncate|resize)$')
def _bm_reserve(ex, p, m, a, func, fr):
    op = m.group(1)
    if op == 'reserve':
        # remember the guarantee: at least `additional` bytes of spare capacity at the current length (used by chunk_mut)
        try:
            tr0 = target_ref(ex, p, a[0])
            b0 = ex.load(p.st, tr0.base, tr0.proj)
            key, ent = (tr0.base, tr0.proj), (a[1][0], b0.off + b0.len)
            return one(U(), apply=lambda q: q.ghost.setdefault('reserved', {}).__setitem__(key, ent))
        except Exception:
            return one(U())
    r = a[0]
    tr = target_ref(ex, p, r)
    b = ex.load(p.st, tr.base, tr.proj)
    if op == 'clear':
        return one(U(), apply=lambda q: ex.store(q.st, tr.base, tr.proj, b.with_(len=bv64(0))))
    if op == 'truncate':
        n = a[1][0]
        return one(U(), apply=lambda q: ex.store(q.st, tr.base, tr.proj, b.with_(len=z3.If(z3.ULT(n, b.len), n, b.len))))
    return None


@model(r'^<(?:\w+::)*BytesMut as (?:\w+::)*BufMut>::put_(u8|u16|u32|u64|u128|i8|i16|i32|i64)$')
def _put(ex, p, m, a, func, fr):
    r = a[0]
    tr = target_ref(ex, p, r)
    b = ex.load(p.st, tr.base, tr.proj)
    k = INT_BITS[m.group(1)] // 8
    # a value the executor could not compute (opaque) is written as an arbitrary one (over-approximation)
    v = fresh('opaque_put', z3.BitVecSort(8 * k)) if isinstance(a[1], Opaque) else a[1][0]
    arr = b.arr
    pos = b.off + b.len
    for t in range(k):
        arr = z3.Store(arr, pos + bv64(t), z3.Extract(8 * (k - t) - 1, 8 * (k - t - 1), v))
    nb = b.with_(arr=arr, len=b.len + bv64(k))
    return one(U(), apply=lambda q: ex.store(q.st, tr.base, tr.proj, nb))


@model(r'^(?:(?:\w+::)*BytesMut::extend_from_slice|<(?:\w+::)*BytesMut as (?:\w+::)*BufMut>::put_slice|<(?:\w+::)*BytesMut as (?:\w+::)*BufMut>::put::<.*>|'
       r'(?:std::vec::)?Vec::<u8>::extend_from_slice|<(?:\w+::)*BytesMut as (?:\w+::)*Extend<.*>>::extend::<.*>)$')
def _extend(ex, p, m, a, func, fr):
    r = a[0]
    tr = target_ref(ex, p, r)
    b = ex.load(p.st, tr.base, tr.proj)
    sa, so, sl = ex.bytes_view(p.st, a[1])
    nb = b.with_(arr=copy_into(b.arr, b.off + b.len, sa, so, sl), len=b.len + sl)
    # remember how the buffer was put together (used by oracles that compare released bytes piece by piece)
    prev = PIECES.get(b.arr.get_id())
    if prev is not None and prev[0] is b.arr and z3.eq(prev[1], b.off):
        ps = prev[2]
    elif z3.is_true(z3.simplify(b.len == 0)):
        ps = []
    else:
        ps = [(b.arr, b.off, b.len)]
    PIECES[nb.arr.get_id()] = (nb.arr, b.off, ps + [(sa, so, sl)])
    return one(U(), apply=lambda q: ex.store(q.st, tr.base, tr.proj, nb))


@model(r'^<(?:\w+::)*BytesMut as (?:\w+::)*BufMut>::advance_mut$')
def _advance_mut(ex, p, m, a, func, fr):
    r = a[0]
    tr = target_ref(ex, p, r)
    b = ex.load(p.st, tr.base, tr.proj)
    n = a[1][0]
    return one(U(), apply=lambda q: ex.store(q.st, tr.base, tr.proj, b.with_(len=b.len + n)))


@model(r'^<(?:\w+::)*BytesMut as (?:\w+::)*BufMut>::chunk_mut$')
def _chunk_mut(ex, p, m, a, func, fr):
    r = a[0]
    tr = target_ref(ex, p, r)
    b = ex.load(p.st, tr.base, tr.proj)
    # spare capacity: a write-through window that starts at the end of the buffer.  Its length is what BytesMut guarantees:
    # at least the amount of the last reserve() made at this very length, otherwise only "not empty" (chunk_mut grows a full buffer)
    spare = fresh('spare', BV64)
    end = b.off + b.len
    res = p.ghost.get('reserved', {}).get((tr.base, tr.proj))
    lo = bv64(1)
    if res is not None and z3.is_true(z3.simplify(res[1] == end)):
        lo = z3.If(z3.UGE(res[0], 1), res[0], bv64(1))
    return one(SRef(tr, end, spare), assume=z3.And(z3.UGE(spare, lo), z3.ULE(spare, bvv(1 << 40, 64))))


@model(r'^(?:\w+::)*(?:BytesMut|Bytes)::(freeze|into|clone)$|^<(?:\w+::)*(?:BytesMut|Bytes) as (?:std::clone::)?Clone>::clone$')
def _freeze(ex, p, m, a, func, fr):
    b = B(ex, p, a[0])
    kind = 'bytes' if func.endswith('freeze') else b.kind
    return one(Buf(kind, b.arr, b.off, b.len))


@model(r'^<(?:\w+::)*(BytesMut|Bytes) as (?:std::convert::)?From<(.+)>>::from$')
def _bytes_from(ex, p, m, a, func, fr):
    arr, off, ln = ex.bytes_view(p.st, a[0])
    return one(Buf('bytesmut' if m.group(1) == 'BytesMut' else 'bytes', arr, off, ln))


@model(r'^<(.+) as (?:std::convert::)?Into<(?:\w+::)*(BytesMut|Bytes|Vec<u8>)>>::into$')
def _into_bytes(ex, p, m, a, func, fr):
    arr, off, ln = ex.bytes_view(p.st, a[0])
    kind = {'BytesMut': 'bytesmut', 'Bytes': 'bytes', 'Vec<u8>': 'vec'}[m.group(2)]
    return one(Buf(kind, arr, off, ln))


@model(r'^<(?:\w+::)*(?:BytesMut|Bytes|Vec<u8>|String|std::string::String|std::vec::Vec<u8>) as (?:std::ops::)?Deref>::deref$')
def _deref_buf(ex, p, m, a, func, fr):
    b = B(ex, p, a[0])
    if isinstance(b, Opaque):
        return one(b)
    kind = 'str' if 'String' in func else 'slice'
    return one(Buf(kind, b.arr, b.off, b.len))


@model(r'^<(?:\w+::)*(?:BytesMut|Vec<u8>|std::vec::Vec<u8>) as (?:std::ops::)?DerefMut>::deref_mut$|^<(?:\w+::)*(?:BytesMut|Vec<u8>) as (?:std::convert::)?AsMut<\[u8\]>>::as_mut$|'
       r'^(?:std::vec::)?Vec::<u8>::as_mut_slice$')
def _deref_mut_buf(ex, p, m, a, func, fr):
    return one(ex.as_sref(p.st, a[0]))


@model(r'^<(?:\w+::)*(?:BytesMut|Bytes|Vec<u8>|\[u8; \w+\]|\[u8\]|String|str) as (?:std::convert::)?AsRef<\[u8\]>>::as_ref$|'
       r'^(?:std::string::)?String::as_bytes$|^core::str::<impl str>::as_bytes$|^(?:std::vec::)?Vec::<u8>::as_slice$|^(?:std::string::)?String::as_str$|'
       r'^core::array::<impl \[u8; \w+\]>::as_slice$|^<\[u8; \w+\] as (?:std::borrow::)?Borrow<\[u8\]>>::borrow$')
def _as_bytes(ex, p, m, a, func, fr):
    arr, off, ln = ex.bytes_view(p.st, a[0])
    return one(Buf('str' if func.endswith('as_str') else 'slice', arr, off, ln))


@model(r'^core::array::<impl \[u8; \w+\]>::as_mut_slice$|^<\[u8; \w+\] as (?:std::convert::)?AsMut<\[u8\]>>::as_mut$')
def _arr_as_mut(ex, p, m, a, func, fr):
    return one(ex.as_sref(p.st, a[0]))


# --------------------------------------------------------------------------- slices of bytes
def _range_bounds(kind, rv, ln):
    """(start, end, extra oblig list) for a range value over a sequence of length ln"""
    f = rv.fields if isinstance(rv, Agg) else ()
    if kind == 'RangeTo':
        return bv64(0), f[0][0], []
    if kind == 'RangeFrom':
        return f[0][0], ln, []
    if kind == 'Range':
        return f[0][0], f[1][0], []
    if kind == 'RangeFull':
        return bv64(0), ln, []
    if kind == 'RangeInclusive':
        return f[0][0], f[1][0] + bv64(1), [(f[1][0] != bvv((1 << 64) - 1, 64), 'slice: inclusive range end overflow')]
    if kind == 'RangeToInclusive':
        return bv64(0), f[0][0] + bv64(1), []
    raise Inconclusive('range kind ' + kind)


@model(r'^<(?:\w+::)*(\[u8\]|\[u8; \w+\]|BytesMut|Bytes|Vec<u8>|str|String) as (?:std::ops::)?(Index|IndexMut)<(?:std::ops::)?(RangeTo|RangeFrom|Range|RangeFull|RangeInclusive|RangeToInclusive)(?:<usize>)?>>::(index|index_mut)$')
def _slice_index(ex, p, m, a, func, fr):
    mut = m.group(2) == 'IndexMut'
    kind = m.group(3)
    rv = a[1]
    if mut:
        s = ex.as_sref(p.st, a[0])
        arr, off, ln = None, s.off, s.len
    else:
        arr, off, ln = ex.bytes_view(p.st, a[0])
    st_, en, extra = _range_bounds(kind, rv, ln)
    obl = list(extra) + [(z3.ULE(st_, en), 'slice: index starts after end'), (z3.ULE(en, ln), 'slice: range end out of bounds')]
    if m.group(1) in ('str', 'String'):
        # char-boundary panics are only excluded for ASCII content; recorded as an assumption by the driver
        pass
    if mut:
        return one(SRef(s.owner, off + st_, en - st_), oblig=obl)
    return one(Buf('str' if m.group(1) in ('str', 'String') else 'slice', arr, off + st_, en - st_), oblig=obl)


@model(r'^<(?:\w+::)*(BytesMut|Bytes|Vec<u8>) as (?:std::ops::)?(Index|IndexMut)<usize>>::(index|index_mut)$')
def _buf_index_usize(ex, p, m, a, func, fr):
    arr, off, ln = ex.bytes_view(p.st, a[0])
    i = a[1][0]
    cell = p.alloc((z3.Select(arr, off + i), 'u8'), 'elem')
    return one(cell, oblig=[(z3.ULT(i, ln), 'index out of bounds')])


@model(r'^core::slice::<impl \[u8\]>::(len|is_empty)$|^(?:std::vec::)?Vec::<u8>::(len|is_empty)$|^(?:std::string::)?String::(len|is_empty)$|^core::str::<impl str>::(len|is_empty)$')
def _slice_len(ex, p, m, a, func, fr):
    _arr, _off, ln = ex.bytes_view(p.st, a[0])
    if func.endswith('is_empty'):
        return one((ln == bv64(0), 'bool'))
    return one((ln, 'usize'))


@model(r'^core::slice::<impl \[u8\]>::copy_from_slice$|^core::slice::<impl \[u8\]>::clone_from_slice$')
def _copy_from_slice(ex, p, m, a, func, fr):
    dst = ex.as_sref(p.st, a[0])
    sa, so, sl = ex.bytes_view(p.st, a[1])
    return one(U(), oblig=[(dst.len == sl, 'copy_from_slice: source and destination lengths differ')],
               apply=lambda q: ex.bytes_fill(q.st, dst, sa, so, sl))


@model(r'^core::slice::<impl \[u8\]>::(split_at_mut|split_at)$')
def _split_at(ex, p, m, a, func, fr):
    mid = a[1][0]
    if m.group(1) == 'split_at_mut':
        s = ex.as_sref(p.st, a[0])
        return one(Agg('tuple', (SRef(s.owner, s.off, mid), SRef(s.owner, s.off + mid, s.len - mid))),
                   oblig=[(z3.ULE(mid, s.len), 'split_at_mut: mid > len')])
    arr, off, ln = ex.bytes_view(p.st, a[0])
    return one(Agg('tuple', (Buf('slice', arr, off, mid), Buf('slice', arr, off + mid, ln - mid))), oblig=[(z3.ULE(mid, ln), 'split_at: mid > len')])


@model(r'^(?:std|core|alloc)::slice::<impl \[u8\]>::(to_vec|to_owned|into_vec)$|^<\[u8\] as (?:std::borrow::)?ToOwned>::to_owned$|^<(?:std::vec::)?Vec<u8> as (?:std::clone::)?Clone>::clone$')
def _to_vec(ex, p, m, a, func, fr):
    arr, off, ln = ex.bytes_view(p.st, a[0])
    return one(Buf('vec', arr, off, ln))


@model(r'^<str as (?:std::borrow::)?ToOwned>::to_owned$|^<(?:std::string::)?String as (?:std::clone::)?Clone>::clone$|^<str as (?:std::string::)?ToString>::to_string$|'
       r'^<(?:std::string::)?String as (?:std::convert::)?From<&str>>::from$|^core::str::<impl str>::to_owned$|^(?:alloc|std)::str::<impl str>::to_owned$')
def _str_to_owned(ex, p, m, a, func, fr):
    v = B(ex, p, a[0])
    if isinstance(v, Opaque):
        return one(v)
    arr, off, ln = ex.bytes_view(p.st, v)
    return one(Buf('string', arr, off, ln))


@model(r'^(?:std::string::)?String::(from_utf8_unchecked|from_utf8)$|^(?:(?:std|core)::str::)?(from_utf8_unchecked|from_utf8)$')
def _from_utf8(ex, p, m, a, func, fr):
    arr, off, ln = ex.bytes_view(p.st, a[0])
    kind = 'string' if 'String' in func else 'str'
    if func.endswith('unchecked'):
        return one(Buf(kind, arr, off, ln))
    ok = fresh('utf8_ok', z3.BoolSort())
    return [dict(cond=ok, value=res_ok(Buf(kind, arr, off, ln))), dict(cond=z3.Not(ok), value=res_err(Opaque('Utf8Error')))]


@model(r'^(?:std::vec::)?Vec::<u8>::(new|with_capacity)$|^(?:std::string::)?String::new$')
def _vec_new(ex, p, m, a, func, fr):
    return one(Buf('string' if 'String' in func else 'vec', fresh_bytes('newvec'), bv64(0), bv64(0)))


@model(r'^(?:std|alloc)::vec::from_elem::<u8>$')
def _vec_from_elem(ex, p, m, a, func, fr):
    return one(Buf('vec', z3.K(BV64, a[0][0]), bv64(0), a[1][0]))


@model(r'^<\[u8; (\w+)\] as (?:std::convert::)?TryFrom<&\[u8\]>>::try_from$|^<&\[u8\] as (?:std::convert::)?TryInto<\[u8; (\w+)\]>>::try_into$|'
       r'^<(?:std::vec::)?Vec<u8> as (?:std::convert::)?TryInto<\[u8; (\w+)\]>>::try_into$|^<\[u8; (\w+)\] as (?:std::convert::)?TryFrom<(?:std::vec::)?Vec<u8>>>::try_from$')
def _arr_try_from(ex, p, m, a, func, fr):
    ntxt = next(g for g in m.groups() if g)
    n = int(ntxt) if ntxt.isdigit() else ex.const_generics[ntxt]
    arr, off, ln = ex.bytes_view(p.st, a[0])
    i = z3.BitVec('i!tf', 64)
    out = z3.Lambda([i], z3.Select(arr, off + i)) if not z3.is_bv_value(z3.simplify(off)) or z3.simplify(off).as_long() != 0 else arr
    return [dict(cond=ln == bv64(n), value=res_ok(Arr(out, 'u8', n))), dict(cond=ln != bv64(n), value=res_err(Opaque('TryFromSliceError')))]


@model(r'^<(?:&)?\[u8(?:; \w+)?\] as (?:std::cmp::)?PartialEq<(?:&)?\[u8(?:; \w+)?\]>>::(eq|ne)$|^<(?:&)?\[u8(?:; \w+)?\] as (?:std::cmp::)?PartialEq>::(eq|ne)$|'
       r'^<(?:std::vec::)?Vec<u8> as (?:std::cmp::)?PartialEq<.*>>::(eq|ne)$|^<(?:&)?\[u8(?:; \w+)?\] as (?:std::cmp::)?PartialEq<(?:std::vec::)?Vec<u8>>>::(eq|ne)$')
def _bytes_eq(ex, p, m, a, func, fr):
    op = next(g for g in m.groups() if g)
    a1, o1, l1 = ex.bytes_view(p.st, a[0])
    a2, o2, l2 = ex.bytes_view(p.st, a[1])
    e = bytes_equal(a1, o1, l1, a2, o2, l2)
    return one((e if op == 'eq' else z3.Not(e), 'bool'))


def bytes_equal(a1, o1, l1, a2, o2, l2, cap=64):
    """equality of two byte sequences; exact when one length is a small constant, otherwise a fresh Boolean
    constrained in both directions through a universally quantified witness-free encoding is avoided:
    we use a bounded-length expansion and state the cap."""
    s1, s2 = z3.simplify(l1), z3.simplify(l2)
    n = None
    if z3.is_bv_value(s1):
        n = s1.as_long()
    elif z3.is_bv_value(s2):
        n = s2.as_long()
    if n is not None and n <= 4096:
        return z3.And(l1 == l2, *[z3.Select(a1, o1 + bv64(i)) == z3.Select(a2, o2 + bv64(i)) for i in range(n)])
    i = z3.BitVec('i!eq', 64)
    return z3.And(l1 == l2, z3.ForAll([i], z3.Implies(z3.ULT(i, l1), z3.Select(a1, o1 + i) == z3.Select(a2, o2 + i))))


# --------------------------------------------------------------------------- Cursor over a buffer
@model(r'^(?:std::io::)?Cursor::<(.+)>::new$')
def _cursor_new(ex, p, m, a, func, fr):
    return one(Agg('struct', (a[0], (bv64(0), 'u64')), 'Cursor'))


@model(r'^(?:std::io::)?Cursor::<(.+)>::(position|into_inner|get_ref|get_mut|set_position)$')
def _cursor_misc(ex, p, m, a, func, fr):
    op = m.group(2)
    if op == 'into_inner':
        c = a[0]
        return one(c.fields[0])
    r = a[0]
    c = B(ex, p, r)
    if op == 'position':
        return one(c.fields[1])
    if op in ('get_ref', 'get_mut'):
        return one(c.fields[0])
    tr = target_ref(ex, p, r)
    return one(U(), apply=lambda q: ex.store(q.st, tr.base, tr.proj, Agg('struct', (c.fields[0], a[1]), 'Cursor')))


def _cursor_parts(ex, p, r):
    tr = target_ref(ex, p, r)
    c = ex.load(p.st, tr.base, tr.proj)
    arr, off, ln = ex.bytes_view(p.st, c.fields[0])
    pos = c.fields[1][0]
    # Buf for Cursor: remaining = len.saturating_sub(pos)
    rem = z3.If(z3.ULT(ln, pos), bv64(0), ln - pos)
    return tr, c, arr, off, ln, pos, rem


@model(r'^<(?:std::io::)?Cursor<(.+)> as (?:\w+::)*Buf>::(remaining|has_remaining|get_u8|get_u16|get_u32|get_u64|get_u128|get_i64|copy_to_slice|copy_to_bytes|advance|chunk)$')
def _cursor_buf(ex, p, m, a, func, fr):
    op = m.group(2)
    tr, c, arr, off, ln, pos, rem = _cursor_parts(ex, p, a[0])

    def adv(n):
        return lambda q: ex.store(q.st, tr.base, tr.proj, Agg('struct', (c.fields[0], (pos + n, 'u64')), 'Cursor'))
    if op == 'remaining':
        return one((rem, 'usize'))
    if op == 'has_remaining':
        return one((rem != bv64(0), 'bool'))
    if op == 'chunk':
        return one(Buf('slice', arr, off + pos, rem))
    if op.startswith('get_'):
        ty = op[4:]
        k = INT_BITS[ty] // 8
        bs = [z3.Select(arr, off + pos + bv64(i)) for i in range(k)]
        return one((z3.Concat(*bs) if k > 1 else bs[0], ty), oblig=[(z3.UGE(rem, bv64(k)), 'bytes: Cursor::%s needs %d bytes (buffer under-run)' % (op, k))], apply=adv(bv64(k)))
    if op == 'advance':
        n = a[1][0]
        return one(U(), oblig=[(z3.ULE(n, rem), 'bytes: Cursor advance past remaining')], apply=adv(n))
    if op == 'copy_to_slice':
        dst = ex.as_sref(p.st, a[1])
        n = dst.len

        def app(q):
            ex.bytes_fill(q.st, dst, arr, off + pos, n)
            adv(n)(q)
        return one(U(), oblig=[(z3.UGE(rem, n), 'bytes: Cursor copy_to_slice needs more bytes than remaining')], apply=app)
    if op == 'copy_to_bytes':
        n = a[1][0]
        return one(Buf('bytes', arr, off + pos, n), oblig=[(z3.ULE(n, rem), 'bytes: Cursor copy_to_bytes past remaining')], apply=adv(n))
    return None


# --------------------------------------------------------------------------- misc std
@model(r'^<(.+) as (?:std::convert::)?Into<(.+)>>::into$|^<(.+) as (?:std::convert::)?From<(.+)>>::from$')
def _identity_into(ex, p, m, a, func, fr):
    src, dst = (m.group(1), m.group(2)) if m.group(1) else (m.group(4), m.group(3))
    if 'GenericArray' in dst or 'GenericArray' in src:
        return one(a[0])
    if strip_generics(src).replace('std::', '') == strip_generics(dst).replace('std::', ''):
        return one(a[0])
    if 'anyhow::Error' in dst or dst.endswith('Error'):
        return one(Opaque('error'))
    return None


@model(r'^<(?:std::sync::)?Arc<.*> as (?:std::ops::)?Deref>::deref$|^<(?:std::boxed::)?Box<.*> as (?:std::ops::)?Deref(?:Mut)?>::deref(?:_mut)?$|'
       r'^<(?:std::pin::)?Pin<.*> as (?:std::ops::)?Deref(?:Mut)?>::deref(?:_mut)?$|^<(?:std::sync::)?Arc<.*> as (?:std::convert::)?AsRef<.*>>::as_ref$')
def _smart_deref(ex, p, m, a, func, fr):
    r = a[0]
    tr = target_ref(ex, p, r)
    v = ex.load(p.st, tr.base, tr.proj)
    if isinstance(v, Agg) and v.kind in ('arc', 'box', 'pin'):
        return one(v.fields[0])
    return one(tr)


@model(r'^(?:std::pin::)?Pin::<.*>::(new|new_unchecked|get_mut|into_inner|as_mut|get_unchecked_mut)$')
def _pin(ex, p, m, a, func, fr):
    v = a[0]
    if m.group(1) == 'as_mut':
        return one(B(ex, p, v) if isinstance(ex.load(p.st, v.base, v.proj), Ref) else v)
    return one(v)


@model(r'^<(?:std::sync::)?Arc<.*> as (?:std::clone::)?Clone>::clone$')
def _arc_clone(ex, p, m, a, func, fr):
    return one(B(ex, p, a[0]))


@model(r'^(?:std::sync::)?Arc::<.*>::new$|^(?:std::boxed::)?Box::<.*>::new$')
def _arc_new(ex, p, m, a, func, fr):
    kind = 'arc' if 'Arc' in func else 'box'
    val = a[0]

    def app(q):
        pass
    r = p.alloc(val, kind)
    return one(Agg(kind, (r,)))


@model(r'^(?:std|core)::mem::(replace|take|swap)::<.*>$')
def _mem_replace(ex, p, m, a, func, fr):
    op = m.group(1)
    tr = target_ref(ex, p, a[0])
    old = ex.load(p.st, tr.base, tr.proj)
    if op == 'replace':
        return one(old, apply=lambda q: ex.store(q.st, tr.base, tr.proj, a[1]))
    return None


@model(r'^(?:std|core)::hint::(black_box|must_use)::<.*>$|^(?:anyhow::__private::)?must_use(?:::<.*>)?$|^(?:core::hint::)?must_use::<.*>$')
def _must_use(ex, p, m, a, func, fr):
    return one(a[0])


@model(r'^(?:std|core)::slice::from_raw_parts(_mut)?::<.*>$')
def _from_raw_parts(ex, p, m, a, func, fr):
    ptr, n = a[0], a[1][0]
    if func.endswith('<u8>') or func.endswith("u8>"):
        if isinstance(ptr, SRef):
            return one(SRef(ptr.owner, ptr.off, n))
        if isinstance(ptr, Ref):
            s = ex.as_sref(p.st, ptr)
            return one(SRef(s.owner, s.off, n))
    em = re.search(r"<(?:'_, )?(u16|u32|u64)>$", func)
    if em:
        # reinterpretation of bytes as native-endian (little-endian) integers; alignment of the allocation is not modelled
        from .mir import INT_BITS as IB
        k = IB[em.group(1)] // 8
        arr, off, _ln = ex.bytes_view(p.st, ptr)
        cnt = z3.simplify(n)
        if z3.is_bv_value(cnt) and cnt.as_long() <= 8:
            out = z3.K(BV64, bvv(0, 8 * k))
            for i in range(cnt.as_long()):
                out = z3.Store(out, bv64(i), z3.Concat(*[z3.Select(arr, off + bv64(i * k + j)) for j in reversed(range(k))]))
            return one(Arr(out, em.group(1), cnt.as_long()))
    return one(Agg('rawslice', (ptr, (n, 'usize')), func))


@model(r'^core::slice::<impl \[u8\]>::(as_mut_ptr|as_ptr)$|^(?:\w+::)*UninitSlice::(as_mut_ptr|len)$')
def _as_ptr(ex, p, m, a, func, fr):
    if func.endswith('::len'):
        s = a[0] if isinstance(a[0], SRef) else ex.as_sref(p.st, a[0])
        return one((s.len, 'usize'))
    if isinstance(a[0], SRef):
        return one(a[0])
    try:
        return one(ex.as_sref(p.st, a[0]))
    except Inconclusive:
        arr, off, ln = ex.bytes_view(p.st, a[0])
        return one(Buf('slice', arr, off, ln))


@model(r'^<(?:\w+::)*UninitSlice as (?:std::ops::)?(Index|IndexMut)<(?:std::ops::)?(RangeTo|RangeFrom|Range|RangeFull)(?:<usize>)?>>::(index|index_mut)$')
def _uninit_index(ex, p, m, a, func, fr):
    s = a[0] if isinstance(a[0], SRef) else ex.as_sref(p.st, a[0])
    st_, en, extra = _range_bounds(m.group(2), a[1], s.len)
    return one(SRef(s.owner, s.off + st_, en - st_), oblig=[(z3.ULE(st_, en), 'slice: index starts after end'), (z3.ULE(en, s.len), 'slice: range end out of bounds')])


# --------------------------------------------------------------------------- Vec<T> of non-bytes as bounded lists
@model(r'^(?:std::vec::)?Vec::<(?!u8>)(.+)>::(new|with_capacity)$')
def _list_new(ex, p, m, a, func, fr):
    return one(List(()))


@model(r'^(?:std::vec::)?Vec::<(?!u8>)(.+)>::(push|len|is_empty|remove|pop|clear)$')
def _list_ops(ex, p, m, a, func, fr):
    op = m.group(2)
    r = a[0]
    tr = target_ref(ex, p, r)
    v = ex.load(p.st, tr.base, tr.proj)
    if not isinstance(v, List):
        if isinstance(v, Opaque):
            return one(Opaque('list op on opaque'))
        raise Inconclusive('Vec op on %r' % (v,))
    if op == 'push':
        nv = List(v.items + (a[1],))
        return one(U(), apply=lambda q: ex.store(q.st, tr.base, tr.proj, nv))
    if op == 'len':
        return one((bv64(len(v.items)), 'usize'))
    if op == 'is_empty':
        return one((T if not v.items else F, 'bool'))
    if op == 'pop':
        if not v.items:
            return one(opt_none())
        return one(opt_some(v.items[-1]), apply=lambda q: ex.store(q.st, tr.base, tr.proj, List(v.items[:-1])))
    if op == 'remove':
        idx = z3.simplify(a[1][0])
        if not z3.is_bv_value(idx):
            raise Inconclusive('Vec::remove with symbolic index')
        k = idx.as_long()
        if k >= len(v.items):
            return [dict(panic='Vec::remove index out of bounds')]
        return one(v.items[k], apply=lambda q: ex.store(q.st, tr.base, tr.proj, List(v.items[:k] + v.items[k + 1:])))
    if op == 'clear':
        return one(U(), apply=lambda q: ex.store(q.st, tr.base, tr.proj, List(())))
    return None


@model(r'^<(?:std::vec::)?Vec<(?!u8>)(.+)> as (?:std::ops::)?Deref(?:Mut)?>::deref(?:_mut)?$')
def _list_deref(ex, p, m, a, func, fr):
    return one(target_ref(ex, p, a[0]))


@model(r'^core::slice::<impl \[(?!u8\])(.+)\]>::(len|is_empty|iter|first|last)$')
def _list_slice_ops(ex, p, m, a, func, fr):
    op = m.group(2)
    v = B(ex, p, a[0])
    if isinstance(v, Arr):
        if op == 'len':
            return one((v.nterm(), 'usize'))
        return None
    if not isinstance(v, List):
        return None
    if op == 'len':
        return one((bv64(len(v.items)), 'usize'))
    if op == 'is_empty':
        return one((T if not v.items else F, 'bool'))
    if op == 'iter':
        tr = target_ref(ex, p, a[0]) if isinstance(a[0], Ref) else None
        return one(Agg('struct', (tr if tr is not None else v, (bv64(0), 'usize')), 'ListIter'))
    return None


@model(r'^<&(?:std::vec::)?Vec<(?!u8>)(.+)> as (?:std::iter::)?IntoIterator>::into_iter$|^<&\[(?!u8\])(.+)\] as (?:std::iter::)?IntoIterator>::into_iter$')
def _list_into_iter(ex, p, m, a, func, fr):
    tr = target_ref(ex, p, a[0])
    return one(Agg('struct', (tr, (bv64(0), 'usize')), 'ListIter'))


@model(r'^<(?:\w+::)*(?:Address|SocketAddr|SocketAddrV4|SocketAddrV6|Ipv4Addr|Ipv6Addr|RequestHeader|String) as (?:std::clone::)?Clone>::clone$')
def _value_clone(ex, p, m, a, func, fr):
    # values are persistent in this executor: a clone of a modelled value is the value
    try:
        v = ex.deref_all(p.st, a[0]) if isinstance(a[0], Ref) else a[0]
    except Inconclusive:
        return None
    if isinstance(v, Opaque):
        return None
    return one(v)


@model(r'^<(?:\w+::)*\w+ as (?:std::cmp::)?PartialEq>::(eq|ne)$')
def _enum_partial_eq(ex, p, m, a, func, fr):
    # #[derive(PartialEq)] on a field-less enum compares discriminants
    try:
        x = ex.deref_all(p.st, a[0]) if isinstance(a[0], Ref) else a[0]
        y = ex.deref_all(p.st, a[1]) if isinstance(a[1], Ref) else a[1]
    except Inconclusive:
        return None
    if isinstance(x, Enum) and isinstance(y, Enum) and not any(x.payloads.values()) and not any(y.payloads.values()) and x.ename == y.ename and ex.prog.enum_info(x.ename):
        eq = x.disc == y.disc
        return one((eq if m.group(1) == 'eq' else z3.Not(eq), 'bool'))
    return None


@model(r'^core::slice::<impl \[(?!u8\])(.+)\]>::(split_first|split_last|first|last)$')
def _list_split_first(ex, p, m, a, func, fr):
    tr = target_ref(ex, p, a[0]) if isinstance(a[0], Ref) else None
    lst = ex.load(p.st, tr.base, tr.proj) if tr is not None else a[0]
    if not isinstance(lst, List):
        return None
    if not lst.items:
        return one(opt_none())
    op = m.group(2)
    k = 0 if op in ('split_first', 'first') else len(lst.items) - 1
    elem = Ref(tr.base, tr.proj + (('cindex', k, False),)) if tr is not None else lst.items[k]
    if op in ('first', 'last'):
        return one(opt_some(elem))
    rest = List(lst.items[1:] if op == 'split_first' else lst.items[:-1])
    return one(opt_some(Agg('tuple', (elem, p.alloc(rest, 'rest')))))


@model(r'^core::slice::<impl \[(?!u8\])(.+)\]>::iter$')
def _list_iter(ex, p, m, a, func, fr):
    tr = target_ref(ex, p, a[0]) if isinstance(a[0], Ref) else a[0]
    return one(Agg('struct', (tr, (bv64(0), 'usize')), 'ListIter'))


@model(r'^<(?:std|core)::slice::Iter<\'_, (?!u8>)(.+)> as (?:std::iter::)?IntoIterator>::into_iter$')
def _list_iter_into_iter(ex, p, m, a, func, fr):
    return one(a[0])


@model(r'^<(?:std|core)::slice::Iter<\'_, (?!u8>)(.+)> as (?:std::iter::)?Iterator>::next$')
def _list_iter_next(ex, p, m, a, func, fr):
    tr = target_ref(ex, p, a[0])
    it = ex.load(p.st, tr.base, tr.proj)
    if not (isinstance(it, Agg) and it.name == 'ListIter'):
        return None
    src = it.fields[0]
    lst = B(ex, p, src) if isinstance(src, Ref) else src
    k = z3.simplify(it.fields[1][0]).as_long()
    if k >= len(lst.items):
        return one(opt_none())
    elem = Ref(src.base, src.proj + (('cindex', k, False),)) if isinstance(src, Ref) else lst.items[k]
    nit = Agg('struct', (src, (bv64(k + 1), 'usize')), 'ListIter')
    return one(opt_some(elem), apply=lambda q: ex.store(q.st, tr.base, tr.proj, nit))


@model(r'^core::slice::<impl \[u8\]>::(get|first|last)(?:::<usize>)?$')
def _slice_get(ex, p, m, a, func, fr):
    arr, off, ln = ex.bytes_view(p.st, a[0])
    op = m.group(1)
    if op == 'get':
        i = a[1][0]
        ok = z3.ULT(i, ln)
    elif op == 'first':
        i = bv64(0)
        ok = ln != bv64(0)
    else:
        i = ln - bv64(1)
        ok = ln != bv64(0)
    cell = p.alloc((z3.Select(arr, off + i), 'u8'), 'elem')
    return [dict(cond=ok, value=opt_some(cell)), dict(cond=z3.Not(ok), value=opt_none())]


# --------------------------------------------------------------------------- vec![..] expansion (Box::new_uninit + raw write + assume_init_into_vec)
@model(r'^(?:std::boxed::)?Box::<\[.*\]>::new_uninit$')
def _box_new_uninit(ex, p, m, a, func, fr):
    cell = p.alloc(None, 'uninit')
    return one(Agg('struct', (Agg('struct', (cell,), 'NonNull'),), 'BoxUninit'))


@model(r'^(?:std::boxed::)?box_assume_init_into_vec_unsafe::<.*>$')
def _box_into_vec(ex, p, m, a, func, fr):
    cell = a[0].fields[0].fields[0]
    v = ex.load(p.st, cell.base, cell.proj)
    # MaybeUninit { value: ManuallyDrop { MaybeDangling { T } } }
    for _ in range(3):
        if isinstance(v, Agg) and v.kind == 'struct' and v.fields:
            v = v.fields[-1]
    if isinstance(v, Arr) and v.elemty == 'u8':
        return one(Buf('vec', v.arr, bv64(0), v.nterm()))
    return one(v)


# --------------------------------------------------------------------------- std::net value types
# SocketAddrV4 = Agg('struct', (ip: Arr[u8;4], port), 'SocketAddrV4'); SocketAddrV6 = Agg((ip: Arr[u8;16], port, flowinfo, scope), 'SocketAddrV6')
@model(r'^(?:std::net::)?SocketAddrV4::new$')
def _sa4_new(ex, p, m, a, func, fr):
    return one(Agg('struct', (a[0], a[1]), 'SocketAddrV4'))


@model(r'^(?:std::net::)?SocketAddrV6::new$')
def _sa6_new(ex, p, m, a, func, fr):
    return one(Agg('struct', (a[0], a[1], a[2], a[3]), 'SocketAddrV6'))


@model(r'^(?:std::net::)?SocketAddrV[46]::(ip|port)$')
def _sa_get(ex, p, m, a, func, fr):
    tr = target_ref(ex, p, a[0])
    v = ex.load(p.st, tr.base, tr.proj)
    if isinstance(v, Opaque):
        return one(Opaque('socket addr part'))
    if m.group(1) == 'ip':
        return one(Ref(tr.base, tr.proj + (('field', 0),)))
    return one(v.fields[1])


@model(r'^(?:std::net::)?Ipv[46]Addr::octets$')
def _ip_octets(ex, p, m, a, func, fr):
    v = B(ex, p, a[0])
    return one(v)


@model(r'^<(?:std::net::)?Ipv4Addr as (?:std::convert::)?From<u32>>::from$|^<(?:std::net::)?Ipv6Addr as (?:std::convert::)?From<u128>>::from$')
def _ip_from_int(ex, p, m, a, func, fr):
    x = a[0][0]
    k = x.size() // 8
    arr = z3.K(BV64, bvv(0, 8))
    for i in range(k):
        arr = z3.Store(arr, bv64(i), z3.Extract(8 * (k - i) - 1, 8 * (k - i - 1), x))
    return one(Arr(arr, 'u8', k))


@model(r'^<(?:\w+::)*Address as (?:std::convert::)?From<(?:std::net::)?SocketAddr>>::from$')
def _addr_from_sa(ex, p, m, a, func, fr):
    return one(Enum(bv64(1), {'Socket': (a[0],)}, 'Address'))


@model(r'^<(?:std::option::)?Option<(.+)> as (?:std::cmp::)?PartialEq>::(eq|ne)$')
def _opt_eq(ex, p, m, a, func, fr):
    x, y = B(ex, p, a[0]), B(ex, p, a[1])
    if not (isinstance(x, Enum) and isinstance(y, Enum)):
        return None
    px, py = x.payloads.get('Some'), y.payloads.get('Some')
    both = z3.And(x.disc != 0, y.disc != 0)
    if px and py:
        vx, vy = B(ex, p, px[0]), B(ex, p, py[0])
        if isinstance(vx, tuple) and isinstance(vy, tuple):
            inner = vx[0] == vy[0]
        else:
            a1, o1, l1 = ex.bytes_view(p.st, vx)
            a2, o2, l2 = ex.bytes_view(p.st, vy)
            inner = bytes_equal(a1, o1, l1, a2, o2, l2)
    else:
        inner = F
    e = z3.Or(z3.And(x.disc == 0, y.disc == 0), z3.And(both, inner))
    return one((e if m.group(2) == 'eq' else z3.Not(e), 'bool'))


from . import timemodel  # noqa: E402  (registers the std::time contracts)
