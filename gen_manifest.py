#!/usr/bin/env python3
"""Writes MANIFEST.json from the table below (kept in one place so it stays valid)."""
import json, os, subprocess
HERE = os.path.dirname(os.path.abspath(__file__))
hooks_commits = subprocess.run(['git', '-C', '/repo', 'log', '--format=%h %s', '--grep=^verif hooks'], stdout=subprocess.PIPE, text=True).stdout.strip().split('\n')

CHECKS = {
 'C11': dict(
    text='Inductive proof over the MIR of PacketWindowFilter::validate_packet_id: from every filter state satisfying the representation invariant, for every packet id and limit, the accept decision equals the set model (unseen, not more than 8128 behind, below the limit), the invariant is preserved, refused ids leave the state unchanged, no arithmetic/index assert can fail; base case from new(); the client codec drops (never errors on) a refused id. Histories of any length follow by induction; thorough adds 2-step BMC from new().',
    note='Trusted: rustc MIR dump, vf.engine translation, z3. The invariant is proved, not assumed. Server-side reaction to a refused id (async loop) is outside.',
    technique='MIR symbolic execution to z3 (induction with ghost witness + bounded model checking)', design='DESIGN.md section 2, C11'),
}
CHECKS['C07'] = dict(
    text='Panic-freedom of every network-facing decoder (SOCKS5 address/handshake/UDP, Trojan server+client, Shadowsocks TCP/UDP legacy and 2022 with and without identity headers, VMess server Init, body codec in all size-parser/padding modes, client response header, read_address_port), each executed symbolically from a symbolic state of every state class on an arbitrary byte string of arbitrary length, with havoc contracts for the cryptographic opens (so authenticated-but-malformed content is covered): every bytes/slice/Option API precondition, MIR assert and reachable panic call is an obligation discharged by z3. Counterexamples are replayed natively (real wire re-sealed or scripted AEAD/clock hooks) before being reported.',
    note='Trusted: rustc MIR dump, vf.engine, contract models of bytes/std/crypto APIs, z3. Chunk loops closed by induction from an arbitrary loop-head state; SOCKS5 method list bounded to 8. Transport stacks, allocation failure and the async shells are outside.',
    technique='MIR symbolic execution to z3 (panic-freedom obligations over symbolic-length buffers, havoc crypto contracts)', design='DESIGN.md section 2, C07')

CHECKS['C14'] = dict(
    text='Round trip of the real address encoders and decoders (SOCKS5-style and VMess-style) on a symbolic address - IPv4, IPv6, or a domain name of symbolic length and content - followed by an arbitrary tail: decoded address equals the original, exactly the encoded bytes are consumed, length()/try_decode_at agree with what was written, and a refusal writes nothing. Proved for names of every length (not sampled): the one-byte length field boundary is a value of the symbolic length.',
    note='Trusted: rustc MIR dump, vf.engine, bytes/std::net contract models, z3. String::from_utf8 is a may-fail contract.',
    technique='MIR symbolic execution to z3 (encode/decode round trip over symbolic-length byte arrays)', design='DESIGN.md section 2, C14')

CHECKS['C10'] = dict(
    text='Acceptance predicates of the real code compared with the specification for every clock instant (seconds and sub-second part), timestamp, type byte and salt: validate_timestamp accepts iff |floor(clock) - ts| <= 30; VMess auth_id::matching accepts only within 120 s; Mode type-byte table; the Shadowsocks 2022 TCP decoder (server and client, three cipher families) and the UDP decoders accept only the expected type byte and a fresh timestamp; the client accepts only a response echoing its own request salt; the server consults the salt cache before opening and records the salt on acceptance; salts are retained for at least 60 s; the VMess client accepts only the response authentication byte it sent.',
    note='Trusted: rustc MIR dump, vf.engine, std::time and crypto contract models (AEAD opens are havoc: plaintext header fields are arbitrary), z3. The salt cache is a set contract; concurrent presentation (try_lock) and LRU internals are outside.',
    technique='MIR symbolic execution to z3 (clock as a symbolic instant; acceptance implies specification)', design='DESIGN.md section 2, C10')

CHECKS['C16'] = dict(
    text='Configuration predicates decided over their whole (finite) domains on the real code: Mode::enable_tcp/udp/quic against the README table, CipherKind::is_aead_2022/support_eih/tag_size for all kinds, the key-size dispatch of the server startup and the client TCP/UDP transfer (first segment of the async bodies executed as MIR with a symbolic cipher: 128-bit ciphers select N=16, the others N=32, the unknown cipher instantiates nothing), key decoding (Ok implies exactly N decoded bytes, for every decoded length) and the key derivation chosen for legacy ciphers on UDP.',
    note='Trusted: rustc MIR dump, vf.engine, Base64::decode contract, z3. serde name tables and socket binding are outside. Listed known finding: lenient key length (blocked by a repository test).',
    technique='MIR symbolic execution to z3 (finite-domain tables and key-length logic)', design='DESIGN.md section 2, C16')

CHECKS['C12'] = dict(
    text='Nonce discipline of the real code: IncreasingNonceGenerator::generate is exactly +1 on the 96-bit little-endian counter from every state (init starts one step before 0); CountingNonceGenerator writes the big-endian 16-bit counter over bytes 0-1 of whatever buffer it is given, leaves the rest, advances by one; both Authenticators make exactly one AEAD call per operation and hand the cipher the freshly advanced nonce (also on the failure path); the UDP packet id advance cannot wrap; decoding a reply leaves the sending counters untouched; the VMess authenticated-length cipher key is the kdf16(.."auth_len") derivation, never the body key.',
    note='Trusted: rustc MIR dump, vf.engine, crypto contracts that log the nonce each AEAD call receives, provenance-tagged key derivations (idealised KDF), z3. Randomness quality is outside.',
    technique='MIR symbolic execution to z3 (generator arithmetic as bit-vector identities; logged AEAD nonces)', design='DESIGN.md section 2, C12')

CHECKS['C13'] = dict(
    text='SOCKS5: wire images of well-formed greetings and command requests/responses written from RFC 1928 as symbolic byte arrays (three address types, domain names of every length 1..255, any port, arbitrary trailing tunnel bytes): the real decoders return exactly the requested command and address and consume exactly the request; on every strict prefix (symbolic cut point) they return Ok(None) and leave the buffer untouched, so every segmentation yields the same result; the reply encoders emit [5, method] and [5, status, 0, address]. HTTP: the MIR of recognize_http on every printable-ASCII request target up to the stated length bound against a reference URI grammar over the same symbolic bytes (scheme://host[:port][/path][?query] with reg-name or bracketed IPv6 hosts, paths and queries containing : / ? ://; CONNECT host:port): accepted kind, host bytes and port are exactly the named ones (80 by default), targets naming no host are refused, no str slice can panic.',
    note='Trusted: rustc MIR dump, vf.engine, vf.strmodel (bounded contracts for str::find/rfind/ends_with/parse from the std documentation), z3. Bound: request targets <= 20 bytes (quick) / 28 (thorough). The socket-facing steps (peek sniffing, the single 1024-byte read after CONNECT, FramedRead::into_inner between the two SOCKS5 decoders, command types other than CONNECT being tunnelled) are async shell code outside the claim.',
    technique='MIR symbolic execution to z3 (RFC 1928 wire images and a reference URI grammar as symbolic byte arrays; bounded str contracts)', design='DESIGN.md section 2, C13')

CHECKS['C05'] = dict(
    text='Ideal-AEAD (INT-CTXT) ghost log: the log holds what the genuine peers of both directions sealed, written from the protocol specifications with symbolic sizes and contents; the real decoders (Shadowsocks ChunkDecoder, the Shadowsocks TCP decoder for the AEAD and 2022 ciphers in server and client mode, the VMess body decoder in all size/padding modes on both sides) are driven the way FramedRead drives them on a FULLY ARBITRARY attacker byte string of arbitrary length delivered in 1 or 2 segments with a symbolic cut - every flip, truncation, deletion, duplication, swap, splice and reflection is a value of it. Oracle: the released bytes are a whole-chunk prefix of what the genuine sender of that direction wrote (2022: a reflected or opposite-direction stream releases nothing; legacy ciphers: reflection exempt as the property says). Counterexamples are replayed on the real FramedRead round the real decoder with the model AEAD outcomes.',
    note='Trusted: rustc MIR dump, vf.engine, vf.ideal (a ciphertext opens only if the same key identity, nonce, length and tag were sealed; key derivations are injective pairings), props/wire.py layouts, z3. Bounds: 2 genuine chunks per direction (3 for the AEAD-cipher client jobs), 1-2 segments; thorough = quick for this check (larger bounds measured not to finish). Async relay behaviour after an error is outside.',
    technique='MIR symbolic execution to z3 (ideal-AEAD ghost log; arbitrary attacker stream; prefix oracle)', design='DESIGN.md section 2, C05')

CHECKS['C04'] = dict(
    text='Genuine streams laid out from the specifications (symbolic sizes/contents, ideal-AEAD log in exact mode) are fed to the real decoders through a model of FramedRead\'s documented loop in 1 or 2 consecutive non-empty segments with symbolic cut points - every cut position of every frame length at once - after which the transport goes quiet: no segmentation yields an error, and everything the sender wrote has been released, in order, by the time the last byte has arrived (no stall, no loss). Decoders: Shadowsocks TCP (5 ciphers, server and client mode), VMess body decode_payload/decode_packet (plain / SHAKE-masked / authenticated sizes, with and without global padding, both sides), the VMess server codec from the first byte (auth id, sealed header, data section; TCP: connect item first; UDP: one item per datagram). Plus the MIR of the repository\'s own WebSocketFramed::poll_next with the transport and the codec as contracts: Pending is returned only if the transport returned Pending in that call, never while bytes are buffered that the decoder has not been asked about, and received-but-unconsumed bytes are kept. Counterexamples are replayed on the real tokio-util FramedRead / the real WebSocketFramed over tokio-websockets.',
    note='Trusted: rustc MIR dump, vf.engine, vf.ideal exact mode, props/wire.py layouts, the FramedRead loop as documented (replays use the real one), z3. Shadowsocks 2022 salt+fixed header boundary exempt as the property says. Unauthenticated VMess size fields with 2+ segments run in the thorough tier only (10-20 min per job). Trojan/SOCKS5 framing: C02/C13. More than 2 segments (3 were measured not to finish within 10 minutes per job) and the transports below AsyncRead are outside.',
    technique='MIR symbolic execution to z3 (genuine stream, symbolic cut points, FramedRead loop model; poll_next with contract transport)', design='DESIGN.md section 2, C04 and section 7')

CHECKS['C06'] = dict(
    text='Server-side decoders on an arbitrary input of arbitrary length, with the ideal-AEAD ghost log holding only what parties without the required credential can have sealed (another pre-shared key differing in at least one bit; the server key alone where a registered user key is also required; an unregistered key) next to one genuine request of registered user A: a connect/relay item reaches the relay only if every opened ciphertext was sealed under the configured credential; with a two-user table (symbolic keys and identity hashes) traffic authenticated under A is attributed to A (session user = A, so replies use A\'s key) and a lookup miss never falls back to the server key. Trojan: an item is yielded - and the Header state left - only if the 56 presented characters decode (u8::from_str_radix semantics) to the stored SHA-224 digest, for every input.',
    note='Trusted: rustc MIR dump, vf.engine, vf.ideal, AES-ECB/CRC/FNV as arbitrary functions, z3. VMess: the server codec from its initial state on an arbitrary input with a log holding a complete request of an UNREGISTERED user id (differs from the registered command key in at least one bit) never yields an item (auth-id block cipher, CRC32 and FNV are arbitrary functions; the sealed header is unforgeable); VMess attribution between two registered ids is not checked; Shadowsocks UDP identity headers and the process-wide UDP cipher cache are outside. Whether the server dials is decided by the first item (async relay_to is outside).',
    technique='MIR symbolic execution to z3 (ideal-AEAD ghost log of non-credentialed ciphertexts; accept implies credential)', design='DESIGN.md section 2, C06')

CHECKS['C01'] = dict(
    text='Codec composition, the only layer that transforms bytes: the REAL client encoder (Shadowsocks TCP, AEAD and 2022 ciphers) is executed for a script of application writes of arbitrary content towards an arbitrary target (IPv4, IPv6 or domain), and the buffer it produced - with the key identities, nonces and framing it really used recorded in the ideal-AEAD log - is read by the REAL server decoder (server PayloadCodec) through the FramedRead loop model in 1 or 2 segments with a symbolic cut: the first item is the connect item naming exactly the requested address and the concatenation of everything released equals the concatenation of everything written; then the REAL server encoder of that very session (its request-salt echo, its own salt) writes two answers and the REAL client decoder (the codec object that sent the request) releases exactly those bytes. The Trojan pair (client tcp::ClientCodec encoder holding the hex of the digest the server stores -> server ServerCodec) is composed the same way. Counterexamples of the Shadowsocks request leg are replayed natively with the real ciphers end to end (real client codec -> real FramedRead -> real server codec).',
    note='Bounds: write sizes from a grid of concrete values (quick (1,64) (37,5); thorough adds empty first writes, 65494/65495/70000-byte writes crossing the chunk limit, three-write scripts); contents, addresses, ports, salts, cut points symbolic. Write sizes of every value are covered on the encoder side by C03. the VMess composition, the two forward pumps, try_join!, EOF propagation, transports and sockets are outside: a change confined to relay_tcp/relay_bidirectional is not detected.',
    technique='MIR symbolic execution to z3 (real encoder output fed to the real decoder under the ideal-AEAD log)', design='DESIGN.md section 2, C01 and section 7')

CHECKS['C03'] = dict(
    text='Sender side of the wire format on the real code: the Shadowsocks TCP encoders (three AEAD ciphers and three 2022 ciphers, client and server mode) are executed on a write of symbolic length and content followed by a second write; the sequence of (key identity, nonce, plaintext) they seal and the bytes they emit are compared with the layout the specifications prescribe: session key derived from (pre-shared key, the salt that starts the stream), nonces 0,1,2,... in sealing order, every length chunk announcing exactly the following payload chunk, payload chunks within the sender limit (0x3FFF for the AEAD ciphers, 0xFFFF for 2022), 2022 fixed header = [type, timestamp = clock, request-salt echo, length of the variable header], padding only on an empty first write and at most 900 bytes, sealed plaintext = address, padding, then exactly the bytes written, emitted length = salt + sum(chunk + tag). Shadowsocks 2022 identity headers (with_eih) for chains of 1, 2 and 3 identity keys: header i is AES-ECB(BLAKE3 identity sub-key of identity key i and the salt, first 16 bytes of BLAKE3(next key of the chain)), in order (replayed against an independent native computation). The receiver side (streams laid out from the specifications by an independent sender are accepted with the same payload in every segmentation) is the C04 check.',
    note='A solver decides structure and limits, not byte equality of BLAKE3/HKDF/MD5/AES-GCM outputs with an independent implementation (those are pinned by the repository known-answer tests); VMess and Trojan sender layouts, datagram layouts and identity-header chains are not yet compared. Bounds: first write up to 3 chunks, second up to 2.',
    technique='MIR symbolic execution to z3 (seal log of the real encoders against the specification layout)', design='DESIGN.md section 2, C03 and section 7')

CHECKS['C02'] = dict(
    text='Datagram-in-stream framings on the real decoders: one datagram in the Trojan UDP framing ([address][length][CRLF][payload], laid out from the protocol description with symbolic payload size 0..65535, content and IPv4 or domain address) followed by an arbitrary tail, with the buffer cut at an arbitrary point, is given to the real server decoder (ServerCodec in its Udp state) and the real client udp::ClientCodec: before the datagram is complete nothing is yielded and nothing is consumed; once it is complete exactly that payload - a window of the received bytes, never truncated, extended or shifted - is yielded with exactly the address on the wire, and exactly the bytes after it are left, so by induction over the datagrams of a stream (the decoders keep no state between datagrams) every stream in every segmentation yields every datagram once, whole and in order. The VMess datagram framing (one authenticated chunk per datagram through the server codec and decode_packet, K items for K datagrams in every segmentation) is decided by the C04 jobs vmess::ServerAeadCodec[..UDP..] and vmess::decode_packet.',
    note='Outside: ownership and routing (client binding table, server association table, TTLs, select! loops, channels, sockets); Shadowsocks UDP datagram round trips (raw-pointer encoders and the process-wide cipher cache are not executed; their decoders are covered by C07/C10/C11/C12) and Socks5UdpCodec round trips. A change in socket plumbing (e.g. a shrinking receive buffer) is not detected.',
    technique='MIR symbolic execution to z3 (one-datagram inductive step of the Decoder contract over a symbolic buffer and cut)', design='DESIGN.md section 7, C02')

NOT_APPLICABLE = {
 'C08': 'property is about long-lived async accept/select! loops under injected socket/TLS/DNS faults; no synchronous core that symbolic execution of MIR or Kani can reach (tokio runtime, epoll, FFI)',
 'C09': 'quantifies over thread interleavings of shared state; Kani has no thread model and Engine M is sequential',
 'C15': 'EOF propagation through Stream::forward/try_join!, QUIC finish/stopped and descriptor release are runtime/OS behaviour with no synchronous core to encode',
}
PENDING = [ 'C07', 'C10', 'C12', 'C13', 'C14', 'C16']

m = {
 'version': 1,
 'setup_cmd': './setup.sh',
 'hooks': {
   'guard': 'cargo feature `verif` (octo-squirrel, octo-squirrel-client, octo-squirrel-server)',
   'enable': 'the replay crate /verif/replay depends on the three crates with features=["verif"]; Engine M reads private functions from the MIR dump and needs no hook',
   'baseline_off_cmd': 'cd /repo && cargo test --workspace --no-fail-fast --offline',
   'source_commits': [c.split(' ')[0] for c in hooks_commits if c],
   'add_only': True,
 },
 'engines': [
   {'name': 'Engine M (mir2smt)', 'path': 'vf/', 'serves_properties': sorted(CHECKS), 'kind_free_text': 'bounded symbolic execution of rustc MIR (regenerated from /repo each run) into z3 bit-vector/array queries; native replay of every model through /verif/replay'},
 ],
 'checks': [],
 'not_applicable': [],
 'notes': 'exit 0 = held on everything explored; exit 1 = VIOLATION (natively reproduced); exit 2 = inconclusive (never reported as success). Known genuine defects: known_findings.json.',
}
for pid in sorted(CHECKS):
    c = CHECKS[pid]
    m['checks'].append({
      'property_id': pid,
      'quick_cmd': './check %s --tier quick' % pid,
      'thorough_cmd': './check %s --tier thorough' % pid,
      'evidence_file': 'evidence/%s.json' % pid,
      'replay_cmd_template': './check %s --replay {path}' % pid,
      'engine': 'Engine M (mir2smt)',
      'level_claimed': {'category': 'proof', 'text': c['text'], 'design_ref': c['design']},
      'level_note': c['note'],
      'technique': c['technique'],
    })
for pid, r in sorted(NOT_APPLICABLE.items()):
    m['not_applicable'].append({'property_id': pid, 'reason': r})
for pid in PENDING:
    if pid not in CHECKS:
        m['not_applicable'].append({'property_id': pid, 'reason': 'check not built yet in this session (planned, see DESIGN.md section 6); not claimed until its check passes on the unchanged tree'})
json.dump(m, open(os.path.join(HERE, 'MANIFEST.json'), 'w'), indent=1)
print('MANIFEST.json written:', len(m['checks']), 'checks')
