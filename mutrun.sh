#!/bin/bash
# usage: mutrun.sh <seed dir name> <PROP> [tier]   -- applies seeded/<name>/patch.diff in a scratch worktree and runs the check there
name=$1; prop=$2; tier=${3:-quick}
wt=/tmp/mw-$name; vb=/tmp/vb-$name
git -C /repo worktree remove --force $wt >/dev/null 2>&1; rm -rf $wt $vb
git -C /repo worktree add --detach $wt HEAD >/dev/null 2>&1 || exit 9
( cd $wt && git apply ${PATCH:-/verif/seeded/$name/patch.diff} ) || { echo "PATCH DOES NOT APPLY"; exit 9; }
mkdir -p $vb; cp -r /verif/.build/mir $vb/mir 2>/dev/null
# run from a snapshot of the committed framework so that edits in /verif do not disturb the run
snap=/tmp/vsnap-$name; rm -rf $snap; git -C /verif worktree add --detach $snap HEAD >/dev/null 2>&1
VERIF_REPO=$wt VERIF_BUILD=$vb $snap/check $prop --tier $tier "${@:4}" > /tmp/mutrun-$name.log 2>&1
echo "exit=$?" >> /tmp/mutrun-$name.log
tail -4 /tmp/mutrun-$name.log
git -C /repo worktree remove --force $wt >/dev/null 2>&1; git -C /verif worktree remove --force $snap >/dev/null 2>&1; rm -rf $vb/mir $vb/replay-target
