#!/bin/bash
# Builds everything the checks need from files on disk only (offline): nightly metadata for the MIR dumps, the replay crate.
set -e
cd "$(dirname "$0")"
export CARGO_NET_OFFLINE=true
mkdir -p .build evidence replays
python3-vt - <<'PY'
import sys
sys.path.insert(0, '.')
from vf import build, replay
prog, info = build.load_program(regen=True)
print('MIR dumps:', info['dump_log'], len(prog.fns), 'functions')
for prof in ('dev', 'release'):
    exe, err = replay.ensure_built(prof)
    print('replay', prof, exe or err[-2000:])
    if exe is None:
        sys.exit(1)
PY
echo setup ok
