//! C16 replays: predicates, key-size dispatch (observed through startup behaviour), key length checks, UDP key derivation
use std::time::Duration;

use octo_squirrel::codec::aead::CipherKind;
use octo_squirrel::config::Mode;
use octo_squirrel::config::ServerConfig;
use octo_squirrel::config::User;
use octo_squirrel::manager::shadowsocks::ServerUser;
use octo_squirrel::protocol::shadowsocks::aead_2022::password_to_keys;
use serde_json::Value;
use serde_json::json;

use crate::decode::kind_of;

fn mode_of(name: &str) -> Mode {
    match name {
        "Tcp" => Mode::Tcp,
        "Udp" => Mode::Udp,
        "TcpAndUdp" => Mode::TcpAndUdp,
        "Quic" => Mode::Quic,
        _ => Mode::TcpAndQuic,
    }
}

pub fn mode_predicate(spec: &Value) -> Result<Option<String>, String> {
    let m = mode_of(spec["mode"].as_str().unwrap_or(""));
    let got = match spec["method"].as_str().unwrap_or("") {
        "enable_tcp" => m.enable_tcp(),
        "enable_udp" => m.enable_udp(),
        _ => m.enable_quic(),
    };
    let want = spec["want"].as_bool().unwrap_or(false);
    Ok(if got != want { Some(format!("mode {}: {}() = {got}, documented {want}", m, spec["method"])) } else { None })
}

pub fn kind_predicate(spec: &Value) -> Result<Option<String>, String> {
    let k = if spec["kind"].as_str() == Some("Unknown") { CipherKind::Unknown } else { kind_of(spec["kind"].as_str().unwrap_or(""))? };
    let (got, want) = match spec["method"].as_str().unwrap_or("") {
        "is_aead_2022" => (k.is_aead_2022() as u64, spec["want"].as_bool().unwrap_or(false) as u64),
        "support_eih" => (k.support_eih() as u64, spec["want"].as_bool().unwrap_or(false) as u64),
        _ => (k.tag_size() as u64, spec["want"].as_u64().unwrap_or(16)),
    };
    Ok(if got != want { Some(format!("cipher {}: {} = {got}, expected {want}", k, spec["method"])) } else { None })
}

const B64_16: &str = "AAECAwQFBgcICQoLDA0ODw==";
const B64_32: &str = "AAECAwQFBgcICQoLDA0ODxAREhMUFRYXGBkaGxwdHh8=";

fn cipher_name(kind: &str) -> &'static str {
    match kind {
        "Aes128Gcm" => "aes-128-gcm",
        "Aes256Gcm" => "aes-256-gcm",
        "ChaCha20Poly1305" => "chacha20-poly1305",
        "Aead2022Blake3Aes128Gcm" => "2022-blake3-aes-128-gcm",
        "Aead2022Blake3Aes256Gcm" => "2022-blake3-aes-256-gcm",
        "Aead2022Blake3ChaCha8Poly1305" => "2022-blake3-chacha8-poly1305",
        _ => "2022-blake3-chacha20-poly1305",
    }
}

/// The selected key size is not observable directly; a wrong one makes startup fail at once on a correctly sized key
/// (the context cannot be built), a right one leaves the listener running.
pub fn dispatch(spec: &Value) -> Result<Option<String>, String> {
    let kind = spec["kind"].as_str().unwrap_or("");
    if kind == "Unknown" {
        return Err("Unknown cipher: not replayed natively".to_owned());
    }
    let is2022 = kind.starts_with("Aead2022");
    let want16 = spec["want"].as_str() == Some("N=16");
    let password = if !is2022 { "an ordinary password" } else if want16 { B64_16 } else { B64_32 };
    if !is2022 {
        return Err("legacy ciphers accept any password for either key size: dispatch not observable natively".to_owned());
    }
    let rt = tokio::runtime::Builder::new_current_thread().enable_all().build().map_err(|e| e.to_string())?;
    let which = spec["which"].as_str().unwrap_or("");
    let early = rt.block_on(async {
        if which == "server" {
            let config: ServerConfig<octo_squirrel_server::server::verif::SslConfig> = serde_json::from_value(
                json!({"host": "127.0.0.1", "port": 0, "password": password, "protocol": "shadowsocks", "cipher": cipher_name(kind), "mode": "tcp"})).expect("config");
            tokio::time::timeout(Duration::from_millis(600), octo_squirrel_server::server::verif::shadowsocks_startup(&config)).await.ok().map(|r| format!("{:?}", r.map_err(|e| e.to_string())))
        } else {
            let config: ServerConfig<octo_squirrel_client::client::verif::SslConfig> = serde_json::from_value(
                json!({"host": "127.0.0.1", "port": 1, "password": password, "protocol": "shadowsocks", "cipher": cipher_name(kind)})).expect("config");
            let listener = tokio::net::TcpListener::bind("127.0.0.1:0").await.expect("bind");
            tokio::time::timeout(Duration::from_millis(600), octo_squirrel_client::client::verif::transfer_tcp(listener, config)).await.ok().map(|_| "transfer_tcp returned at once (client context not created)".to_owned())
        }
    });
    Ok(early.map(|e| format!("{which} with cipher {} and a correctly sized key stopped immediately: {e}", cipher_name(kind))))
}

pub fn key_length(spec: &Value) -> Result<Option<String>, String> {
    let n = spec["N"].as_u64().unwrap_or(16);
    let short = "AAECAwQFBgc="; // 8 bytes
    let accepted = match (spec["what"].as_str().unwrap_or(""), n) {
        ("password_to_keys", 16) => password_to_keys::<16>(short).is_ok(),
        ("password_to_keys", _) => password_to_keys::<32>(short).is_ok(),
        (_, 16) => ServerUser::<16>::try_from(&User { name: "u".to_owned(), password: short.to_owned() }).is_ok(),
        _ => ServerUser::<32>::try_from(&User { name: "u".to_owned(), password: short.to_owned() }).is_ok(),
    };
    Ok(if accepted { Some(format!("an 8-byte key is accepted where {n} bytes are required ({})", spec["what"])) } else { None })
}

pub fn udp_legacy_key(spec: &Value) -> Result<Option<String>, String> {
    use octo_squirrel_client::client::verif::shadowsocks_udp::Client;
    let kind = spec["kind"].as_str().unwrap_or("");
    let config: ServerConfig<octo_squirrel_client::client::verif::SslConfig> =
        serde_json::from_value(json!({"host": "127.0.0.1", "port": 1, "password": "an ordinary password!", "protocol": "shadowsocks", "cipher": cipher_name(kind)})).expect("config");
    let r = if kind == "Aes128Gcm" { Client::<16>::new_static(config).map(|_| ()) } else { Client::<32>::new_static(config).map(|_| ()) };
    Ok(r.err().map(|e| format!("UDP client with legacy cipher {} refuses an ordinary password: {e}", cipher_name(kind))))
}
