//! C13 replays: SOCKS5 handshake messages written from RFC 1928 against the real decoders; the HTTP request-target parser against
//! an independent reference parser for the grammar  scheme "://" host [":" port] ["/" path] ["?" query]  /  CONNECT host ":" port.
use std::net::Ipv4Addr;
use std::net::Ipv6Addr;
use std::net::SocketAddr;

use octo_squirrel::protocol::address::Address;
use octo_squirrel::protocol::socks5;
use octo_squirrel_client::client::verif::Proxy;
use octo_squirrel_client::client::verif::recognize_http;
use serde_json::Value;
use tokio_util::bytes::BytesMut;
use tokio_util::codec::Decoder;

use crate::decode::bytes_of;

fn addr_of(spec: &Value, kind: &str) -> Result<(Address, Vec<u8>), String> {
    let port = spec["port"].as_u64().unwrap_or(0) as u16;
    let mut wire = vec![];
    let addr = match kind {
        "domain" => {
            let host: Vec<u8> = bytes_of(&spec["host"]).into_iter().map(|b| if b < 0x80 { b } else { b'a' }).collect();
            wire.push(3);
            wire.push(host.len() as u8);
            wire.extend_from_slice(&host);
            Address::Domain(String::from_utf8(host).map_err(|e| e.to_string())?, port)
        }
        "v4" => {
            let b = bytes_of(&spec["ip4"]);
            wire.push(1);
            wire.extend_from_slice(&b[..4]);
            Address::Socket(SocketAddr::new(Ipv4Addr::new(b[0], b[1], b[2], b[3]).into(), port))
        }
        _ => {
            let b = bytes_of(&spec["ip6"]);
            let mut o = [0u8; 16];
            o.copy_from_slice(&b[..16]);
            wire.push(4);
            wire.extend_from_slice(&o);
            Address::Socket(SocketAddr::new(Ipv6Addr::from(o).into(), port))
        }
    };
    wire.extend_from_slice(&port.to_be_bytes());
    Ok((addr, wire))
}

pub fn socks5_handshake(spec: &Value) -> Result<Option<String>, String> {
    let kind = spec["kind"].as_str().unwrap_or("");
    let which = spec["which"].as_str().unwrap_or("request");
    let tail = bytes_of(&spec["tail"]);
    let cut = spec["cut"].as_u64().unwrap_or(u64::MAX);
    let mut req;
    let mut want_addr = None;
    if kind == "initial" {
        req = bytes_of(&spec["wire"]);
        if req.len() < 2 {
            return Err("short wire".into());
        }
        req[0] = 5;
    } else {
        let (addr, aw) = addr_of(spec, kind)?;
        req = vec![5, spec["cmd"].as_u64().unwrap_or(1) as u8, spec["rsv"].as_u64().unwrap_or(0) as u8];
        req.extend_from_slice(&aw);
        want_addr = Some(addr);
    }
    // every prefix, not only the model's cut: cheap natively
    let cuts: Vec<usize> = if (cut as usize) < req.len() { vec![cut as usize] } else { vec![] };
    for c in cuts.into_iter().chain(0..req.len()) {
        let mut part = BytesMut::from(&req[..c]);
        let r = decode_any(kind, which, &mut part);
        match r {
            Ok(None) if part.len() == c => {}
            Ok(None) => return Ok(Some(format!("partial {kind} {which} ({c} of {} bytes): decoder consumed {} bytes", req.len(), c - part.len()))),
            Ok(Some(d)) => return Ok(Some(format!("partial {kind} {which} ({c} of {} bytes) decoded as {d}", req.len()))),
            Err(e) => return Ok(Some(format!("partial {kind} {which} ({c} of {} bytes) refused: {e}", req.len()))),
        }
    }
    let mut full = BytesMut::from(&req[..]);
    full.extend_from_slice(&tail);
    match decode_any(kind, which, &mut full) {
        Ok(Some(d)) => {
            if full[..] != tail[..] {
                return Ok(Some(format!("{kind} {which}: {} bytes left after decoding, {} tunnel bytes followed the request", full.len(), tail.len())));
            }
            if let Some(a) = want_addr {
                let want = format!("{}|{a}", req[1]);
                if d != want {
                    return Ok(Some(format!("{kind} {which} decoded as {d}, requested {want}")));
                }
            }
            Ok(None)
        }
        Ok(None) => Ok(Some(format!("complete {kind} {which} of {} bytes is not decoded (Ok(None))", req.len()))),
        Err(e) => Ok(Some(format!("complete well-formed {kind} {which} refused: {e}"))),
    }
}

fn decode_any(kind: &str, which: &str, src: &mut BytesMut) -> Result<Option<String>, String> {
    use socks5::codec::*;
    match (kind == "initial", which) {
        (true, "request") => Socks5InitialRequestDecoder.decode(src).map(|o| o.map(|_| "greeting".to_owned())).map_err(|e| e.to_string()),
        (true, _) => Socks5InitialResponseDecoder.decode(src).map(|o| o.map(|r| format!("{}", r.auth_method as u8))).map_err(|e| e.to_string()),
        (false, "request") => Socks5CommandRequestDecoder.decode(src).map(|o| o.map(|r| format!("{}|{}", r.command_type as u8, r.dst_addr))).map_err(|e| e.to_string()),
        (false, _) => Socks5CommandResponseDecoder.decode(src).map(|o| o.map(|r| format!("{}|{}", r.command_status as u8, r.bnd_addr))).map_err(|e| e.to_string()),
    }
}

pub fn socks5_replies(spec: &Value) -> Result<Option<String>, String> {
    use socks5::Socks5AuthMethod;
    use socks5::Socks5CommandStatus;
    use socks5::message::*;
    let mut dst = BytesMut::new();
    for m in [Socks5AuthMethod::NoAuth, Socks5AuthMethod::Gssapi, Socks5AuthMethod::Password, Socks5AuthMethod::Unaccepted] {
        dst.clear();
        Socks5InitialResponse::new(m).encode(&mut dst).map_err(|e| e.to_string())?;
        if dst[..] != [5, m as u8] {
            return Ok(Some(format!("method selection reply is {:?}", &dst[..])));
        }
    }
    for kind in ["domain", "v4", "v6"] {
        let have = match kind {
            "domain" => !spec["host"].is_null(),
            "v4" => !spec["ip4"].is_null(),
            _ => !spec["ip6"].is_null(),
        };
        if !have {
            continue;
        }
        let (addr, aw) = addr_of(spec, kind)?;
        if let Address::Domain(h, _) = &addr {
            if h.len() > 255 {
                continue;
            }
        }
        for st in [Socks5CommandStatus::Success, Socks5CommandStatus::Failure] {
            dst.clear();
            Socks5CommandResponse::new(st, addr.clone()).encode(&mut dst).map_err(|e| e.to_string())?;
            let mut want = vec![5, st as u8, 0];
            want.extend_from_slice(&aw);
            if dst[..] != want[..] {
                return Ok(Some(format!("command reply for {addr} is {:?}, RFC 1928 layout is {:?}", &dst[..], want)));
            }
        }
    }
    Ok(None)
}

fn is_regname(c: u8) -> bool {
    c.is_ascii_alphanumeric() || b".-_~".contains(&c)
}

/// reference parser: Some((host, port, rest index)) of an authority at the start of `t`
fn authority(t: &[u8]) -> Option<(String, Option<u16>, usize)> {
    let he = if t.first() == Some(&b'[') {
        let close = t.iter().position(|&c| c == b']')?;
        if close < 3 || !t[1..close].iter().all(|c| c.is_ascii_hexdigit() || *c == b':' || *c == b'.') {
            return None;
        }
        close + 1
    } else {
        t.iter().position(|&c| !is_regname(c)).unwrap_or(t.len())
    };
    if he == 0 {
        return None;
    }
    let host = String::from_utf8(t[..he].to_vec()).ok()?;
    if t.get(he) == Some(&b':') {
        let pe = t[he + 1..].iter().position(|c| !c.is_ascii_digit()).map(|k| k + he + 1).unwrap_or(t.len());
        let digits = &t[he + 1..pe];
        if digits.is_empty() || digits.len() > 5 {
            return None;
        }
        let v: u32 = std::str::from_utf8(digits).ok()?.parse().ok()?;
        if v > 65535 {
            return None;
        }
        Some((host, Some(v as u16), pe))
    } else {
        Some((host, None, he))
    }
}

fn reference(method: &str, t: &[u8]) -> Option<(String, u16)> {
    if !t.iter().all(|c| (0x21..=0x7e).contains(c)) {
        return None;
    }
    if method == "CONNECT" {
        let (h, p, rest) = authority(t)?;
        if rest != t.len() {
            return None;
        }
        return Some((h, p?));
    }
    let se = t.iter().position(|c| !c.is_ascii_alphabetic())?;
    if se == 0 || !t[se..].starts_with(b"://") {
        return None;
    }
    let a = &t[se + 3..];
    let (h, p, rest) = authority(a)?;
    match a.get(rest) {
        None | Some(b'/') | Some(b'?') => Some((h, p.unwrap_or(80))),
        _ => None,
    }
}

pub fn http(spec: &Value) -> Result<Option<String>, String> {
    let t = bytes_of(&spec["target"]);
    let method = String::from_utf8(bytes_of(&spec["method"])).map_err(|e| e.to_string())?;
    let target = String::from_utf8(t.clone()).map_err(|e| e.to_string())?;
    let got = match recognize_http(&method, &target) {
        Ok(Proxy::Http(Address::Domain(h, p))) => Ok(("http", h, p)),
        Ok(Proxy::Https(Address::Domain(h, p))) => Ok(("https", h, p)),
        Ok(_) => return Ok(Some(format!("{method} {target}: unexpected kind of result"))),
        Err(e) => Err(e.to_string()),
    };
    let kind = if method == "CONNECT" { "https" } else { "http" };
    match (reference(&method, &t), got) {
        (Some((h, p)), Ok((k, gh, gp))) => {
            if k == kind && h == gh && p == gp {
                Ok(None)
            } else {
                Ok(Some(format!("{method} {target}: tunnels to {k} {gh}:{gp}, the request names {kind} {h}:{p}")))
            }
        }
        (Some((h, p)), Err(e)) => Ok(Some(format!("{method} {target}: well-formed request for {h}:{p} refused: {e}"))),
        (None, Ok((_, gh, gp))) => {
            if gh.is_empty() {
                Ok(Some(format!("{method} {target}: accepted with an empty host (port {gp})")))
            } else if method != "CONNECT" && !target.contains("://") {
                Ok(Some(format!("{method} {target}: not an absolute URI, yet accepted as host {gh:?} port {gp}")))
            } else {
                Ok(None)
            }
        }
        (None, Err(_)) => Ok(None),
    }
}
