//! entry `framed`: the real tokio_util `FramedRead` round a real decoder, fed the model's byte string in the model's
//! segmentation by a scripted `AsyncRead` that then goes quiet (no EOF unless asked); authenticated decryptions take the
//! outcomes of the ideal-AEAD model (scripted through the `verif` hook). What the adapter yields is compared with the oracle.
use std::collections::VecDeque;
use std::pin::Pin;
use std::task::Context;
use std::task::Poll;

use octo_squirrel::codec::shadowsocks::tcp as sstcp;
use octo_squirrel::protocol::shadowsocks::Mode;
use octo_squirrel::verif;
use serde_json::Value;
use tokio::io::AsyncRead;
use tokio::io::ReadBuf;
use tokio_util::bytes::BytesMut;
use tokio_util::codec::Decoder;
use tokio_util::codec::FramedRead;

use crate::decode::bytes_of;
use crate::decode::kind_of;

pub struct ScriptedReader {
    segs: VecDeque<Vec<u8>>,
    eof: bool,
}

impl AsyncRead for ScriptedReader {
    fn poll_read(mut self: Pin<&mut Self>, _cx: &mut Context<'_>, buf: &mut ReadBuf<'_>) -> Poll<std::io::Result<()>> {
        match self.segs.pop_front() {
            Some(seg) => {
                let n = seg.len().min(buf.remaining());
                buf.put_slice(&seg[..n]);
                if n < seg.len() {
                    self.segs.push_front(seg[n..].to_vec());
                }
                Poll::Ready(Ok(()))
            }
            None if self.eof => Poll::Ready(Ok(())),
            None => Poll::Pending,
        }
    }
}

pub struct FnDecoder<F>(pub F);

impl<F: FnMut(&mut BytesMut) -> anyhow::Result<Option<Vec<u8>>>> Decoder for FnDecoder<F> {
    type Item = Vec<u8>;
    type Error = anyhow::Error;

    fn decode(&mut self, src: &mut BytesMut) -> Result<Option<Self::Item>, Self::Error> {
        (self.0)(src)
    }
}

pub struct Outcome {
    pub items: Vec<Vec<u8>>,
    pub error: Option<String>,
    pub ended: bool,
}

pub fn segments(spec: &Value) -> (VecDeque<Vec<u8>>, bool) {
    let src = bytes_of(&spec["src"]);
    let mut cuts: Vec<usize> = spec["cuts"].as_array().map(|a| a.iter().map(|c| c.as_u64().unwrap_or(0) as usize).collect()).unwrap_or_default();
    cuts.retain(|c| *c > 0 && *c < src.len());
    cuts.sort();
    cuts.dedup();
    let mut segs = VecDeque::new();
    let mut start = 0;
    for c in cuts {
        segs.push_back(src[start..c].to_vec());
        start = c;
    }
    if start < src.len() {
        segs.push_back(src[start..].to_vec());
    }
    (segs, spec["eof"].as_bool().unwrap_or(false))
}

pub fn drive<D: Decoder<Item = Vec<u8>, Error = anyhow::Error> + Unpin>(decoder: D, spec: &Value) -> Outcome {
    use futures::Stream;
    let (segs, eof) = segments(spec);
    let mut framed = FramedRead::new(ScriptedReader { segs, eof }, decoder);
    let waker = std::task::Waker::noop();
    let mut cx = Context::from_waker(waker);
    let mut out = Outcome { items: vec![], error: None, ended: false };
    for _ in 0..100000 {
        match Pin::new(&mut framed).poll_next(&mut cx) {
            Poll::Pending => break,
            Poll::Ready(None) => {
                out.ended = true;
                break;
            }
            Poll::Ready(Some(Ok(item))) => out.items.push(item),
            Poll::Ready(Some(Err(e))) => {
                out.error = Some(e.to_string());
                break;
            }
        }
    }
    out
}

fn chunks_of(v: &Value) -> Vec<Vec<u8>> {
    v.as_array().map(|a| a.iter().map(bytes_of).collect()).unwrap_or_default()
}

fn is_chunk_prefix(released: &[u8], chunks: &[Vec<u8>]) -> bool {
    let mut acc: Vec<u8> = vec![];
    if released.is_empty() {
        return true;
    }
    for c in chunks {
        acc.extend_from_slice(c);
        if acc.len() == released.len() {
            return acc == released;
        }
        if acc.len() > released.len() {
            return false;
        }
    }
    false
}

/// compare with the expectation named in the spec; Some(detail) = the misbehaviour reproduced
pub fn judge(spec: &Value, out: &Outcome) -> Option<String> {
    // tagged items: the first byte names the variant (0 ConnectTcp, 1 RelayTcp, 2 RelayUdp)
    let tagged = spec["tagged"].as_bool().unwrap_or(false);
    let kinds: Vec<u8> = if tagged { out.items.iter().map(|i| i[0]).collect() } else { vec![] };
    let items: Vec<Vec<u8>> = if tagged { out.items.iter().map(|i| i[1..].to_vec()).collect() } else { out.items.clone() };
    let out = &Outcome { items, error: out.error.clone(), ended: out.ended };
    if let (Some(want), Some(got)) = (spec["first_kind"].as_u64(), kinds.first()) {
        if out.error.is_none() && want != *got as u64 {
            let names = ["ConnectTcp", "RelayTcp", "RelayUdp"];
            return Some(format!("the first item the adapter yields for a valid request is {} instead of {}", names[*got as usize % 3], names[want as usize % 3]));
        }
    }
    if let Some(n) = spec["item_count"].as_u64() {
        if out.error.is_none() && out.items.len() as u64 != n {
            return Some(format!("{} items for {} datagrams: boundaries are not preserved", out.items.len(), n));
        }
    }
    let released: Vec<u8> = out.items.concat();
    match spec["expect"].as_str() {
        Some("not_prefix") => {
            let cands = spec["candidates"].as_array().cloned().unwrap_or_default();
            if cands.iter().any(|c| is_chunk_prefix(&released, &chunks_of(c))) {
                None
            } else {
                Some(format!("the adapter released {} bytes in {} items that are not a whole-chunk prefix of any genuine stream", released.len(), out.items.len()))
            }
        }
        Some("first_datagram") => {
            let want = chunks_of(&spec["candidates"][0]).into_iter().next().unwrap_or_default();
            if let Some(e) = &out.error {
                return Some(format!("a valid datagram stream ends in an error in this segmentation: {e}"));
            }
            match out.items.first() {
                None => Some(format!("a complete {}-byte datagram was delivered but nothing was yielded", want.len())),
                Some(got) if *got != want => Some(format!("the first datagram yielded has {} bytes and differs from the {}-byte datagram that was sent", got.len(), want.len())),
                _ => None,
            }
        }
        Some("released_any") => {
            if released.is_empty() && out.items.is_empty() {
                None
            } else {
                Some(format!("the server decoder released {} bytes in {} items to the relay for a peer that did not present the configured credential", released.len(), out.items.len()))
            }
        }
        Some("all_delivered") => {
            let want: Vec<u8> = chunks_of(&spec["candidates"][0]).concat();
            if let Some(e) = &out.error {
                return Some(format!("a valid stream in this segmentation ended in an error: {e}"));
            }
            if released != want {
                return Some(format!(
                    "a valid stream was completely delivered to the decoder in this segmentation, but only {} of its {} plaintext bytes were released before the transport went quiet",
                    released.len(),
                    want.len()
                ));
            }
            None
        }
        _ => None,
    }
}

pub fn run(spec: &Value) -> Result<Option<String>, String> {
    let decoder = spec["decoder"].as_str().ok_or("decoder")?;
    let cfg = &spec["cfg"];
    if let Some(c) = spec["clock"].as_u64() {
        verif::set_clock(Some(c));
    }
    let opens: Vec<Option<Vec<u8>>> =
        spec["opens"].as_array().map(|a| a.iter().map(|o| if o.is_null() { None } else { Some(bytes_of(o)) }).collect()).unwrap_or_default();
    let out = match decoder {
        "ss_tcp" => {
            if cfg["N"].as_u64() == Some(16) {
                ss_tcp::<16>(spec, cfg, opens)?
            } else {
                ss_tcp::<32>(spec, cfg, opens)?
            }
        }
        "vmess_body" => vmess_body(spec, cfg, opens)?,
        "vmess_server" => vmess_server(spec, cfg, opens)?,
        "trojan_server_udp" => trojan_server_udp(spec)?,
        "trojan_client_udp" => trojan_client_udp(spec)?,
        _ => return Err(format!("framed: unknown decoder {decoder}")),
    };
    verif::script_opens(None);
    verif::script_shake(None);
    verif::set_clock(None);
    Ok(judge(spec, &out))
}

fn ss_tcp<const N: usize>(spec: &Value, cfg: &Value, opens: Vec<Option<Vec<u8>>>) -> Result<Outcome, String> {
    let kind = kind_of(cfg["kind"].as_str().unwrap_or(""))?;
    let mode = if cfg["mode"].as_str() == Some("Client") { Mode::Client } else { Mode::Server };
    let users = cfg["users"].as_bool().unwrap_or(false);
    let um = if users {
        use octo_squirrel::manager::shadowsocks::ServerUser;
        use octo_squirrel::manager::shadowsocks::ServerUserManager;
        let mut m = ServerUserManager::<N>::new();
        m.add_user(ServerUser { name: "A".to_owned(), key: [9u8; N], identity_hash: [3u8; 16] });
        m.add_user(ServerUser { name: "B".to_owned(), key: [8u8; N], identity_hash: [4u8; 16] });
        Some(std::sync::Arc::new(m))
    } else {
        None
    };
    let mut spec_owned = spec.clone();
    if users {
        // the identity header names the user the model's lookup found (a genuine header for that user), or nobody
        let mut src = bytes_of(&spec["src"]);
        let hash = match cfg["lookup"].as_str() {
            Some("A") => Some([3u8; 16]),
            Some("B") => Some([4u8; 16]),
            _ => None,
        };
        if let (Some(mut block), true) = (hash, src.len() >= N + 16) {
            let mut material = [7u8; N].to_vec();
            material.extend_from_slice(&src[..N]);
            let sub_key = blake3::derive_key("shadowsocks 2022 identity subkey", &material);
            if N == 16 {
                octo_squirrel::crypto::Aes128EcbNoPadding::encrypt(&sub_key, &mut block, 16);
            } else {
                octo_squirrel::crypto::Aes256EcbNoPadding::encrypt(&sub_key, &mut block, 16);
            }
            src[N..N + 16].copy_from_slice(&block);
            spec_owned["src"] = serde_json::json!(src);
        }
    }
    let spec = &spec_owned;
    let context = sstcp::Context::<N>::new([7u8; N], vec![], kind, um);
    let mut identity = sstcp::Identity::<N>::default();
    let own = bytes_of(&cfg["own_salt"]);
    if own.len() == N {
        identity.salt.copy_from_slice(&own);
    }
    let mut session = sstcp::Session::<N>::new(mode, identity, None);
    let mut codec = sstcp::AEADCipherCodec::<N>::default();
    verif::script_opens(Some(opens));
    let dec = FnDecoder(move |src: &mut BytesMut| codec.decode(&context, &mut session, src).map(|o| o.map(|b| b.to_vec())));
    Ok(drive(dec, spec))
}

fn vmess_body(spec: &Value, cfg: &Value, opens: Vec<Option<Vec<u8>>>) -> Result<Outcome, String> {
    use octo_squirrel::codec::vmess::aead::AEADBodyCodec;
    use octo_squirrel::protocol::address::Address;
    use octo_squirrel::protocol::vmess::header::RequestCommand;
    use octo_squirrel::protocol::vmess::header::RequestHeader;
    use octo_squirrel::protocol::vmess::header::RequestOption;
    use octo_squirrel::protocol::vmess::header::SecurityType;
    use octo_squirrel::protocol::vmess::session::ClientSession;
    use octo_squirrel::protocol::vmess::session::ServerSession;
    use octo_squirrel::protocol::vmess::session::Session;
    let mut options = vec![RequestOption::ChunkStream];
    match cfg["chunk"].as_str() {
        Some("Shake") => options.push(RequestOption::ChunkMasking),
        Some("Auth") => options.push(RequestOption::AuthenticatedLength),
        _ => {}
    }
    if cfg["padding"].as_str() == Some("Shake") {
        options.push(RequestOption::GlobalPadding);
    }
    let packet = cfg["packet"].as_bool().unwrap_or(false);
    let security = if cfg["security"].as_str() == Some("Chacha20Poly1305") { SecurityType::Chacha20Poly1305 } else { SecurityType::Aes128Gcm };
    let header = RequestHeader::new(1, if packet { RequestCommand::UDP } else { RequestCommand::TCP }, options, security, Address::Socket("1.2.3.4:80".parse().unwrap()), [5u8; 16]);
    let server = ServerSession::new([1u8; 16], [2u8; 16], 7);
    let mut session: Box<dyn Session> = if cfg["side"].as_str() == Some("client") { Box::new(ClientSession::from(&[[1u8; 16], [2u8; 16]].concat().iter().copied().chain([7u8]).collect::<Vec<u8>>()[..])) } else { Box::new(server) };
    let mut codec = AEADBodyCodec::new_decoder(&header, session.as_mut()).map_err(|e| e.to_string())?;
    verif::script_opens(Some(opens));
    let shake: Vec<u16> = spec["shake"].as_array().map(|a| a.iter().map(|x| x.as_u64().unwrap_or(0) as u16).collect()).unwrap_or_default();
    verif::script_shake(Some(shake));
    let dec = FnDecoder(move |src: &mut BytesMut| {
        let r = if packet { codec.decode_packet(src, session.as_mut()) } else { codec.decode_payload(src, session.as_mut()) };
        r.map(|o| o.map(|b| b.to_vec())).map_err(|e| anyhow::anyhow!(e))
    });
    Ok(drive(dec, spec))
}

fn vmess_server(spec: &Value, _cfg: &Value, opens: Vec<Option<Vec<u8>>>) -> Result<Outcome, String> {
    use octo_squirrel::protocol::vmess::aead::encrypt;
    use octo_squirrel::protocol::vmess::id;
    use octo_squirrel::util::fnv;
    use octo_squirrel_server::server::verif::InboundIn;
    use octo_squirrel_server::server::verif::new_vmess_codec;
    use serde_json::json;
    use tokio_util::bytes::Bytes;
    const UUID: &str = "b831381d-6324-4d53-ad4f-8cda48b30811";
    let config = crate::trojan::server_config("vmess", "pw", "aes-128-gcm", json!([{"name": "u", "password": UUID}]));
    let mut codec = new_vmess_codec(&config).map_err(|e| e.to_string())?;
    let key = id::from_password(UUID).map_err(|e| e.to_string())?;
    // the model's header plaintext, with a real checksum, sealed for real (auth id for the current time, fresh connection nonce)
    let mut header = bytes_of(&spec["header"]);
    if header.len() < 42 {
        return Err("header too short".to_owned());
    }
    let n = header.len();
    let sum = fnv::fnv1a32(&header[..n - 4]);
    header[n - 4..].copy_from_slice(&sum.to_be_bytes());
    let sealed = encrypt::seal_header(&key, Bytes::from(header.clone())).map_err(|e| e.to_string())?;
    let src = bytes_of(&spec["src"]);
    let consumed = 16 + 18 + 8 + n + 16;
    if src.len() < consumed || sealed.len() != consumed {
        return Err("model stream shorter than its header".to_owned());
    }
    let mut wire = sealed;
    wire.extend_from_slice(&src[consumed..]);
    let mut spec2 = spec.clone();
    spec2["src"] = json!(wire);
    // the two header opens used the real cipher; the data section takes the model outcomes
    verif::script_opens(Some(opens.into_iter().skip(2).collect()));
    let shake: Vec<u16> = spec["shake"].as_array().map(|a| a.iter().map(|x| x.as_u64().unwrap_or(0) as u16).collect()).unwrap_or_default();
    verif::script_shake(Some(shake));
    let dec = FnDecoder(move |src: &mut BytesMut| {
        use tokio_util::codec::Decoder;
        codec.decode(src).map(|o| {
            o.map(|item| match item {
                InboundIn::ConnectTcp(b, _) => [vec![0u8], b.to_vec()].concat(),
                InboundIn::RelayTcp(b) => [vec![1u8], b.to_vec()].concat(),
                InboundIn::RelayUdp(b, _) => [vec![2u8], b.to_vec()].concat(),
            })
        })
    });
    Ok(drive(dec, &spec2))
}

fn trojan_server_udp(spec: &Value) -> Result<Outcome, String> {
    use octo_squirrel_server::server::verif::new_trojan_codec;
    use tokio_util::codec::Decoder;
    let config = crate::trojan::server_config("trojan", "pw", "aes-128-gcm", serde_json::json!([]));
    let mut codec = new_trojan_codec(&config).map_err(|e| e.to_string())?;
    // bring the codec into its Udp state with a genuine header and one datagram
    let mut h = crate::trojan::valid_header(3);
    h.extend_from_slice(&[1, 1, 2, 3, 4, 0, 53, 0, 1, 13, 10, 0x61]);
    let mut h = BytesMut::from(&h[..]);
    codec.decode(&mut h).map_err(|e| e.to_string())?;
    let dec = FnDecoder(move |src: &mut BytesMut| codec.decode(src).map(|o| o.map(|item| crate::compose::tag_item(item).0)));
    Ok(drive(dec, spec))
}

fn trojan_client_udp(spec: &Value) -> Result<Outcome, String> {
    use octo_squirrel::protocol::address::Address;
    use octo_squirrel_client::client::verif::trojan_udp::ClientCodec;
    use tokio_util::codec::Decoder;
    let mut codec = ClientCodec::new(b"pw", 3, Address::Socket("1.2.3.4:80".parse().unwrap()));
    let dec = FnDecoder(move |src: &mut BytesMut| codec.decode(src).map(|o| o.map(|(b, _a)| b.to_vec())));
    Ok(drive(dec, spec))
}
