//! C10 replays: timestamp windows, type bytes, salt retention
use std::time::Duration;

use octo_squirrel::codec::aead::CipherKind;
use octo_squirrel::codec::shadowsocks::aead_2022;
use octo_squirrel::codec::shadowsocks::tcp as sstcp;
use octo_squirrel::protocol::address::Address;
use octo_squirrel::protocol::shadowsocks::Mode;
use octo_squirrel::protocol::vmess::aead::auth_id;
use octo_squirrel::verif;
use serde_json::Value;
use tokio_util::bytes::BytesMut;

pub fn validate_timestamp(spec: &Value) -> Result<Option<String>, String> {
    let delta = spec["delta"].as_i64().unwrap_or(0);
    let expected = delta.abs() <= 30;
    for _ in 0..60 {
        let now = aead_2022::now().map_err(|e| e.to_string())?;
        let ts = if delta >= 0 { now.wrapping_add(delta as u64) } else { now.wrapping_sub((-delta) as u64) };
        let got = aead_2022::validate_timestamp(ts).is_ok();
        let now2 = aead_2022::now().map_err(|e| e.to_string())?;
        if now == now2 && got != expected {
            return Ok(Some(format!("timestamp {delta:+} s from the clock: validate_timestamp says {}, specification says {}", got, expected)));
        }
        std::thread::sleep(Duration::from_millis(37));
    }
    Ok(None)
}

pub fn vmess_matching(spec: &Value) -> Result<Option<String>, String> {
    let blocks = spec["ecb"].as_array().cloned().unwrap_or_default();
    let Some(last) = blocks.last() else { return Err("no block".to_owned()) };
    let b = crate::decode::bytes_of(last);
    if b.len() < 8 {
        return Err("short block".to_owned());
    }
    let mut t = [0u8; 8];
    t.copy_from_slice(&b[..8]);
    let ts = i64::from_be_bytes(t);
    let clock = spec["clock"].as_i64().or_else(|| spec["clock"].as_u64().map(|c| c as i64)).unwrap_or(0);
    verif::set_clock(Some(clock as u64));
    let key = [9u8; 16];
    let auth = auth_id::create(&key, ts);
    let got = auth_id::matching(&auth, &vec![key]).map_err(|e| e.to_string())?.is_some();
    verif::set_clock(None);
    let expected = (ts as i128 - clock as i128).abs() <= 120;
    if got != expected {
        return Ok(Some(format!("auth id with timestamp {ts} at clock {clock}: matching says {got}, specification says {expected}")));
    }
    Ok(None)
}

pub fn mode_bytes(_spec: &Value) -> Result<Option<String>, String> {
    let t = (Mode::Client.to_u8(), Mode::Server.to_u8(), Mode::Client.expect_u8(), Mode::Server.expect_u8());
    if t != (0, 1, 1, 0) {
        return Ok(Some(format!("type byte table (client.to, server.to, client.expect, server.expect) = {:?}, specification (0, 1, 1, 0)", t)));
    }
    Ok(None)
}

/// a request whose timestamp is 29 s ahead stays acceptable for 59 s; presenting it again after 31 s must be refused
pub fn salt_retention(_spec: &Value) -> Result<Option<String>, String> {
    let kind = CipherKind::Aead2022Blake3Aes128Gcm;
    let key = [7u8; 16];
    let server = sstcp::Context::<16>::new(key, vec![], kind, None);
    let client = sstcp::Context::<16>::new(key, vec![], kind, None);
    let now = aead_2022::now().map_err(|e| e.to_string())?;
    verif::set_clock(Some(now + 29));
    let session = sstcp::Session::<16>::new(Mode::Client, sstcp::Identity::default(), Some(Address::Socket("1.2.3.4:80".parse().unwrap())));
    let mut codec = sstcp::AEADCipherCodec::<16>::default();
    let mut wire = BytesMut::new();
    codec.encode(&client, &session, BytesMut::from(&b"hello"[..]), &mut wire).map_err(|e| e.to_string())?;
    verif::set_clock(None);
    let present = |wire: &BytesMut| {
        let mut s = sstcp::Session::<16>::new(Mode::Server, sstcp::Identity::default(), None);
        let mut c = sstcp::AEADCipherCodec::<16>::default();
        let mut w = wire.clone();
        c.decode(&server, &mut s, &mut w).map(|o| o.is_some()).map_err(|e| e.to_string())
    };
    if present(&wire) != Ok(true) {
        return Err(format!("first presentation not accepted: {:?}", present(&wire)));
    }
    std::thread::sleep(Duration::from_secs(31));
    match present(&wire) {
        Ok(true) => Ok(Some("the same request was accepted again 31 s later while its timestamp was still within the window".to_owned())),
        _ => Ok(None),
    }
}
