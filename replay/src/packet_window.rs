use std::collections::BTreeSet;

use octo_squirrel::manager::packet_window::PacketWindowFilter;
use serde_json::Value;

const WINDOW: u64 = 8128;

fn u64s(v: &Value) -> Vec<u64> {
    v.as_array().map(|a| a.iter().filter_map(|x| x.as_u64().or_else(|| x.as_str().and_then(|s| s.parse().ok()))).collect()).unwrap_or_default()
}

/// Runs the real filter over each candidate history against the explicit set model of the property.
pub fn history(spec: &Value) -> Result<Option<String>, String> {
    let limit = spec["limit"].as_u64().or_else(|| spec["limit"].as_str().and_then(|s| s.parse().ok())).unwrap_or(u64::MAX);
    let hs = spec["histories"].as_array().ok_or("histories")?;
    for h in hs {
        let ids = u64s(h);
        let mut f = PacketWindowFilter::new();
        let mut seen = BTreeSet::new();
        let mut last = 0u64;
        for (i, id) in ids.iter().enumerate() {
            let expect = *id < limit && !seen.contains(id) && (*id > last || last - *id <= WINDOW);
            let got = f.validate_packet_id(*id, limit);
            if got != expect {
                return Ok(Some(format!("history {:?} limit {}: step {} id {} -> filter said {}, set model says {}", ids, limit, i, id, got, expect)));
            }
            if expect {
                seen.insert(*id);
                if *id > last {
                    last = *id;
                }
            }
        }
    }
    Ok(None)
}
