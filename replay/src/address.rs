//! entry `address_roundtrip`: decode(encode(a) ++ tail) must give (a, tail), or encode must refuse without writing
use std::net::Ipv4Addr;
use std::net::Ipv6Addr;
use std::net::SocketAddr;

use octo_squirrel::protocol::address::Address;
use octo_squirrel::protocol::socks5;
use octo_squirrel::protocol::vmess;
use serde_json::Value;
use tokio_util::bytes::BytesMut;

use crate::decode::bytes_of;

pub fn roundtrip(spec: &Value) -> Result<Option<String>, String> {
    let port = spec["port"].as_u64().unwrap_or(0) as u16;
    let addr = if !spec["host"].is_null() {
        let host: Vec<u8> = bytes_of(&spec["host"]).into_iter().map(|b| if b < 0x80 { b } else { b'a' }).collect();
        Address::Domain(String::from_utf8(host).map_err(|e| e.to_string())?, port)
    } else if !spec["ip4"].is_null() {
        let b = bytes_of(&spec["ip4"]);
        Address::Socket(SocketAddr::new(Ipv4Addr::new(b[0], b[1], b[2], b[3]).into(), port))
    } else {
        let b = bytes_of(&spec["ip6"]);
        let mut o = [0u8; 16];
        o.copy_from_slice(&b[..16]);
        Address::Socket(SocketAddr::new(Ipv6Addr::from(o).into(), port))
    };
    let tail = bytes_of(&spec["tail"]);
    let mut dst = BytesMut::new();
    let socks = spec["codec"].as_str() != Some("vmess");
    let refused = if socks { format!("{:?}", socks5::address::encode(&addr, &mut dst)).starts_with("Err") } else { vmess::address::write_address_port(&addr, &mut dst).is_err() };
    if refused {
        return Ok(if dst.is_empty() { None } else { Some(format!("encoder refused {addr} after writing {} bytes", dst.len())) });
    }
    let written = dst.len();
    if socks && socks5::address::length(&addr) != written {
        return Ok(Some(format!("length({addr}) = {} but encode wrote {written} bytes", socks5::address::length(&addr))));
    }
    dst.extend_from_slice(&tail);
    let (decoded, rest) = if socks {
        let d = socks5::address::decode(&mut dst).map_err(|e| e.to_string());
        (d, dst.to_vec())
    } else {
        let mut b = dst.split_off(0).freeze();
        let d = vmess::address::read_address_port(&mut b).map_err(|e| e.to_string());
        (d, b.to_vec())
    };
    match decoded {
        Ok(a) if a == addr && rest == tail => Ok(None),
        Ok(a) => Ok(Some(format!("encoded {addr} (+{} tail bytes) decoded as {a} (+{} tail bytes)", tail.len(), rest.len()))),
        Err(e) => Ok(Some(format!("encoded {addr} is refused by the decoder: {e}"))),
    }
}
