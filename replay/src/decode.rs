//! entry `decode`: drive a real decoder (brought into the requested state) over the model's bytes, with the model's clock
//! and the model's outcome/plaintext for every authenticated decryption (scripted through the `verif` hooks).
use std::sync::Arc;

use octo_squirrel::codec::aead::CipherKind;
use octo_squirrel::codec::shadowsocks::tcp as sstcp;
use octo_squirrel::codec::shadowsocks::udp as ssudp;
use octo_squirrel::manager::shadowsocks::ServerUser;
use octo_squirrel::manager::shadowsocks::ServerUserManager;
use octo_squirrel::protocol::shadowsocks::Mode;
use octo_squirrel::protocol::socks5;
use octo_squirrel::verif;
use serde_json::Value;
use tokio_util::bytes::BytesMut;
use tokio_util::codec::Decoder;

pub fn bytes_of(v: &Value) -> Vec<u8> {
    v.as_array().map(|a| a.iter().map(|x| x.as_u64().unwrap_or(0) as u8).collect()).unwrap_or_default()
}

fn opens_of(spec: &Value) -> Vec<Option<Vec<u8>>> {
    spec["opens"].as_array().map(|a| a.iter().map(|o| if o.is_null() { None } else { Some(bytes_of(o)) }).collect()).unwrap_or_default()
}

pub fn kind_of(name: &str) -> Result<CipherKind, String> {
    Ok(match name {
        "Aes128Gcm" => CipherKind::Aes128Gcm,
        "Aes256Gcm" => CipherKind::Aes256Gcm,
        "ChaCha20Poly1305" => CipherKind::ChaCha20Poly1305,
        "Aead2022Blake3Aes128Gcm" => CipherKind::Aead2022Blake3Aes128Gcm,
        "Aead2022Blake3Aes256Gcm" => CipherKind::Aead2022Blake3Aes256Gcm,
        "Aead2022Blake3ChaCha8Poly1305" => CipherKind::Aead2022Blake3ChaCha8Poly1305,
        "Aead2022Blake3ChaCha20Poly1305" => CipherKind::Aead2022Blake3ChaCha20Poly1305,
        _ => return Err(format!("kind {name}")),
    })
}

fn var_u64(spec: &Value, name: &str) -> Option<u64> {
    spec["vars"][name].as_u64()
}

/// A panic propagates to main (= reproduced). A normal return means the real code handled the input.
pub fn run(spec: &Value) -> Result<Option<String>, String> {
    let decoder = spec["decoder"].as_str().ok_or("decoder")?;
    let cfg = &spec["cfg"];
    let mut src = BytesMut::from(&bytes_of(&spec["src"])[..]);
    if let Some(c) = spec["clock"].as_u64() {
        verif::set_clock(Some(c));
    }
    let outcome = match decoder {
        "socks5_address" => socks5::address::decode(&mut src).map(|o| item_of(&o)).map_err(|e| e.to_string()),
        "socks5_initial_request" => socks5::codec::Socks5InitialRequestDecoder.decode(&mut src).map(|o| item_of(&o)).map_err(|e| e.to_string()),
        "socks5_command_request" => socks5::codec::Socks5CommandRequestDecoder.decode(&mut src).map(|o| item_of(&o)).map_err(|e| e.to_string()),
        "socks5_initial_response" => socks5::codec::Socks5InitialResponseDecoder.decode(&mut src).map(|o| item_of(&o)).map_err(|e| e.to_string()),
        "socks5_command_response" => socks5::codec::Socks5CommandResponseDecoder.decode(&mut src).map(|o| item_of(&o)).map_err(|e| e.to_string()),
        "socks5_udp" => socks5::codec::Socks5UdpCodec.decode(&mut src).map(|o| item_of(&o)).map_err(|e| e.to_string()),
        "trojan_server" => crate::trojan::server_decode(cfg, &mut src),
        "trojan_client_udp" => crate::trojan::client_udp_decode(&mut src),
        "ss_tcp" => {
            if cfg["N"].as_u64() == Some(16) {
                ss_tcp::<16>(spec, cfg, &mut src)
            } else {
                ss_tcp::<32>(spec, cfg, &mut src)
            }
        }
        "ss_udp" => {
            if cfg["N"].as_u64() == Some(16) {
                ss_udp::<16>(spec, cfg, &mut src)
            } else {
                ss_udp::<32>(spec, cfg, &mut src)
            }
        }
        "vmess_server" => crate::vmess::server_decode(spec, cfg, &mut src),
        "vmess_client" => crate::vmess::client_decode(spec, cfg, &mut src),
        "vmess_body" => crate::vmess::body_decode(spec, cfg, &mut src),
        "vmess_read_address" => crate::vmess::read_address(&mut src),
        _ => return Err(format!("unknown decoder {decoder}")),
    };
    verif::script_opens(None);
    verif::set_clock(None);
    // no panic: the real code returned
    match (spec["expect"].as_str(), outcome) {
        (Some("accept"), Ok(true)) => Ok(Some("the decoder accepted the input and produced an item".to_owned())),
        (Some("error"), Err(e)) => Ok(Some(format!("the decoder returned an error: {e}"))),
        _ => Ok(None),
    }
}

pub trait ItemLike {
    fn produced(&self) -> bool;
}
impl<T> ItemLike for Option<T> {
    fn produced(&self) -> bool {
        self.is_some()
    }
}
impl ItemLike for octo_squirrel::protocol::address::Address {
    fn produced(&self) -> bool {
        true
    }
}
impl<A, B, C> ItemLike for (A, B, C) {
    fn produced(&self) -> bool {
        true
    }
}
pub fn item_of<T: ItemLike>(o: &T) -> bool {
    o.produced()
}

pub fn user_manager<const N: usize>(on: bool) -> Option<Arc<ServerUserManager<N>>> {
    if !on {
        return None;
    }
    let mut m = ServerUserManager::<N>::new();
    m.add_user(ServerUser { name: "u".to_owned(), key: [9u8; N], identity_hash: [3u8; 16] });
    Some(Arc::new(m))
}

fn ss_tcp<const N: usize>(spec: &Value, cfg: &Value, src: &mut BytesMut) -> Result<bool, String> {
    let kind = kind_of(cfg["kind"].as_str().unwrap_or(""))?;
    let mode = if cfg["mode"].as_str() == Some("Client") { Mode::Client } else { Mode::Server };
    let users = cfg["users"].as_bool().unwrap_or(false);
    let context = sstcp::Context::<N>::new([7u8; N], vec![], kind, user_manager::<N>(users));
    let mut session = sstcp::Session::<N>::new(mode, sstcp::Identity::default(), None);
    let mut codec = sstcp::AEADCipherCodec::<N>::default();
    if cfg["decoder"].as_str() == Some("some") {
        // bring the codec to "decoder present": a salt creates it (legacy framing: same ChunkDecoder for every cipher)
        let mut salt = BytesMut::from(&[1u8; N][..]);
        codec.decode(&context, &mut session, &mut salt).map_err(|e| e.to_string())?;
        if var_u64(spec, "sdisc") == Some(1) {
            // Payload(plen): the state is private, so the length chunk that leads to it is tried for each plausible
            // relation between the announced size and the stored length (size + tag, size, size - tag)
            let plen = var_u64(spec, "plen").unwrap_or(16) as i64;
            for size in [plen - 16, plen, plen + 16] {
                if !(0..=0xffff).contains(&size) {
                    continue;
                }
                let mut c2 = sstcp::AEADCipherCodec::<N>::default();
                let mut s2 = sstcp::Session::<N>::new(if cfg["mode"].as_str() == Some("Client") { Mode::Client } else { Mode::Server }, sstcp::Identity::default(), None);
                let mut salt = BytesMut::from(&[1u8; N][..]);
                c2.decode(&context, &mut s2, &mut salt).map_err(|e| e.to_string())?;
                verif::script_opens(Some(vec![Some((size as u16).to_be_bytes().to_vec())]));
                let mut lenchunk = BytesMut::from(&[0u8; 18][..]);
                c2.decode(&context, &mut s2, &mut lenchunk).map_err(|e| e.to_string())?;
                verif::script_opens(Some(opens_of(spec)));
                let mut input = src.clone();
                let _ = c2.decode(&context, &mut s2, &mut input);
            }
            return Ok(false);
        }
    }
    if users && mode_is_server(cfg) && src.len() >= N + 16 {
        // a genuine identity header for the registered user: AES-ECB(identity subkey, user hash)
        let mut material = [7u8; N].to_vec();
        material.extend_from_slice(&src[..N]);
        let sub_key = blake3::derive_key("shadowsocks 2022 identity subkey", &material);
        let mut block = [3u8; 16];
        if N == 16 {
            octo_squirrel::crypto::Aes128EcbNoPadding::encrypt(&sub_key, &mut block, 16);
        } else {
            octo_squirrel::crypto::Aes256EcbNoPadding::encrypt(&sub_key, &mut block, 16);
        }
        src[N..N + 16].copy_from_slice(&block);
    }
    verif::script_opens(Some(opens_of(spec)));
    codec.decode(&context, &mut session, src).map(|o| item_of(&o)).map_err(|e| e.to_string())
}

fn mode_is_server(cfg: &Value) -> bool {
    cfg["mode"].as_str() != Some("Client")
}

fn ss_udp<const N: usize>(spec: &Value, cfg: &Value, src: &mut BytesMut) -> Result<bool, String> {
    let kind = kind_of(cfg["kind"].as_str().unwrap_or(""))?;
    let mode = if cfg["mode"].as_str() == Some("Client") { Mode::Client } else { Mode::Server };
    let users = cfg["users"].as_bool().unwrap_or(false);
    let key = [7u8; N];
    let ik: Vec<[u8; N]> = vec![];
    let codec = ssudp::SessionCodec::<N>::new(ssudp::Context::new(mode, user_manager::<N>(users), &key, &ik), ssudp::AEADCipherCodec::new(kind));
    if users && mode_is_server(cfg) && src.len() >= 32 {
        // a genuine identity header: AES-ECB(key, user hash XOR decrypted session-id/packet-id block)
        let mut head = [0u8; 16];
        head.copy_from_slice(&src[..16]);
        let mut block = [3u8; 16];
        if N == 16 {
            octo_squirrel::crypto::Aes128EcbNoPadding::decrypt(&key, &mut head);
            block.iter_mut().zip(head).for_each(|(l, r)| *l ^= r);
            octo_squirrel::crypto::Aes128EcbNoPadding::encrypt(&key, &mut block, 16);
        } else {
            octo_squirrel::crypto::Aes256EcbNoPadding::decrypt(&key, &mut head);
            block.iter_mut().zip(head).for_each(|(l, r)| *l ^= r);
            octo_squirrel::crypto::Aes256EcbNoPadding::encrypt(&key, &mut block, 16);
        }
        src[16..32].copy_from_slice(&block);
    }
    verif::script_opens(Some(opens_of(spec)));
    codec.decode(src).map(|o| item_of(&o)).map_err(|e| e.to_string())
}
