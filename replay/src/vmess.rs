//! VMess replays: the wire is re-sealed for real from the model's plaintexts (auth id, header length, header),
//! body chunks go through the scripted AEAD / SHAKE hooks.
use aes_gcm::Aes128Gcm;
use aes_gcm::KeyInit;
use aes_gcm::aead::Aead;
use aes_gcm::aead::Payload;
use octo_squirrel::codec::vmess::aead::AEADBodyCodec;
use octo_squirrel::protocol::address::Address;
use octo_squirrel::protocol::vmess::aead::auth_id;
use octo_squirrel::protocol::vmess::aead::encrypt;
use octo_squirrel::protocol::vmess::aead::kdf;
use octo_squirrel::protocol::vmess::header::RequestCommand;
use octo_squirrel::protocol::vmess::header::RequestHeader;
use octo_squirrel::protocol::vmess::header::RequestOption;
use octo_squirrel::protocol::vmess::header::SecurityType;
use octo_squirrel::protocol::vmess::id;
use octo_squirrel::protocol::vmess::session::ServerSession;
use octo_squirrel::verif;
use octo_squirrel_client::client::verif::vmess::ClientAEADCodec;
use octo_squirrel_server::server::verif::new_vmess_codec;
use serde_json::Value;
use serde_json::json;
use tokio_util::bytes::Bytes;
use tokio_util::bytes::BytesMut;
use tokio_util::codec::Decoder;
use tokio_util::codec::Encoder;

use crate::decode::bytes_of;

const UUID: &str = "b831381d-6324-4d53-ad4f-8cda48b30811";

fn list(spec: &Value, name: &str) -> Vec<Option<Vec<u8>>> {
    spec[name].as_array().map(|a| a.iter().map(|o| if o.is_null() { None } else { Some(bytes_of(o)) }).collect()).unwrap_or_default()
}

fn script_body(spec: &Value) {
    verif::script_opens(Some(list(spec, "opens")));
    let shake: Vec<u16> = list(spec, "xof").into_iter().map(|x| x.map(|b| u16::from_be_bytes([*b.first().unwrap_or(&0), *b.get(1).unwrap_or(&0)])).unwrap_or(0)).collect();
    verif::script_shake(Some(shake));
}

pub fn server_decode(spec: &Value, _cfg: &Value, src: &mut BytesMut) -> Result<bool, String> {
    let config = crate::trojan::server_config("vmess", "pw", "aes-128-gcm", json!([{"name": "u", "password": UUID}]));
    let mut codec = new_vmess_codec(&config).map_err(|e| e.to_string())?;
    let key = id::from_password(UUID).map_err(|e| e.to_string())?;
    let aead_vec = list(spec, "aead_vec");
    let ecb = list(spec, "ecb");
    let mut wire = src.to_vec();
    if let Some(Some(header)) = aead_vec.get(1) {
        let sealed = encrypt::seal_header(&key, Bytes::from(header.clone())).map_err(|e| e.to_string())?;
        let consumed = 16 + 18 + 8 + header.len() + 16;
        let tail = if wire.len() > consumed { wire[consumed..].to_vec() } else { vec![] };
        wire = sealed;
        wire.extend_from_slice(&tail);
    } else if let Some(Some(len_bytes)) = aead_vec.first() {
        let l = u16::from_be_bytes([*len_bytes.first().unwrap_or(&0), *len_bytes.get(1).unwrap_or(&0)]) as usize;
        let mut sealed = encrypt::seal_header(&key, Bytes::from(vec![0u8; l])).map_err(|e| e.to_string())?;
        if wire.len() < sealed.len() {
            sealed.truncate(wire.len());
        }
        wire = sealed;
    } else if let Some(Some(block)) = ecb.first() {
        if block.len() >= 8 && wire.len() >= 16 {
            let mut ts = [0u8; 8];
            ts.copy_from_slice(&block[..8]);
            wire[..16].copy_from_slice(&auth_id::create(&key, i64::from_be_bytes(ts)));
        }
    }
    script_body(spec);
    let mut wire = BytesMut::from(&wire[..]);
    let r = codec.decode(&mut wire).map(|o| crate::decode::item_of(&o)).map_err(|e| e.to_string());
    verif::script_shake(None);
    r
}

fn options(chunk: &str, padding: &str) -> Vec<RequestOption> {
    let mut v = vec![RequestOption::ChunkStream];
    match chunk {
        "Shake" => v.push(RequestOption::ChunkMasking),
        "Auth" => v.push(RequestOption::AuthenticatedLength),
        _ => {}
    }
    if padding == "Shake" {
        v.push(RequestOption::GlobalPadding);
    }
    v
}

/// AEADBodyCodec::{decode_payload, decode_packet} from the model's decoder state
pub fn body_decode(spec: &Value, cfg: &Value, src: &mut BytesMut) -> Result<bool, String> {
    let chunk = cfg["chunk"].as_str().unwrap_or("Plain");
    let padding = cfg["padding"].as_str().unwrap_or("Empty");
    let udp = cfg["command"].as_str() == Some("UDP");
    let header = RequestHeader::new(1, if udp { RequestCommand::UDP } else { RequestCommand::TCP }, options(chunk, padding), SecurityType::Aes128Gcm,
        Address::Socket("1.2.3.4:80".parse().unwrap()), [5u8; 16]);
    let mut session = ServerSession::new([1u8; 16], [2u8; 16], 7);
    let mut codec = AEADBodyCodec::new_decoder(&header, &mut session).map_err(|e| e.to_string())?;
    let state = spec["vars"]["bstate"].as_u64().unwrap_or(0);
    let pad = spec["vars"]["bpad"].as_u64().unwrap_or(0) as u16;
    let blen = spec["vars"]["blen"].as_u64().unwrap_or(0);
    if !udp && state >= 1 {
        // Padding -> Length(pad)
        verif::script_shake(Some(vec![pad]));
        let mut empty = BytesMut::new();
        let _ = codec.decode_payload(&mut empty, &mut session).map_err(|e| e.to_string())?;
        if state >= 2 {
            // Length(pad) -> Body(pad, blen)
            let mut size = BytesMut::new();
            match chunk {
                "Auth" => {
                    if blen < 16 || blen > 0xffff + 16 {
                        return Err("unreachable decoder state".to_owned());
                    }
                    verif::script_opens(Some(vec![Some(((blen - 16) as u16).to_be_bytes().to_vec())]));
                    size.extend_from_slice(&[0u8; 18]);
                }
                _ => {
                    if blen > 0xffff {
                        return Err("unreachable decoder state".to_owned());
                    }
                    verif::script_shake(Some(vec![0]));
                    size.extend_from_slice(&(blen as u16).to_be_bytes());
                }
            }
            let _ = codec.decode_payload(&mut size, &mut session).map_err(|e| e.to_string())?;
        }
    }
    script_body(spec);
    let r = if udp { codec.decode_packet(src, &mut session).map(|o| crate::decode::item_of(&o)).map_err(|e| e.to_string()) } else { codec.decode_payload(src, &mut session).map(|o| crate::decode::item_of(&o)).map_err(|e| e.to_string()) };
    verif::script_shake(None);
    r
}

/// client response header: recover the session keys from the client's own sealed request, then seal the model's
/// header-length and header plaintexts the way the server does
pub fn client_decode(spec: &Value, cfg: &Value, src: &mut BytesMut) -> Result<bool, String> {
    let security = if cfg["security"].as_str() == Some("Chacha20Poly1305") { SecurityType::Chacha20Poly1305 } else { SecurityType::Aes128Gcm };
    let header = RequestHeader::default(RequestCommand::TCP, security, Address::Socket("1.2.3.4:80".parse().unwrap()), UUID).map_err(|e| e.to_string())?;
    let key = header.id;
    let mut client = ClientAEADCodec::new(header);
    let mut request = BytesMut::new();
    client.encode(BytesMut::from(&b"x"[..]), &mut request).map_err(|e| e.to_string())?;
    let plain = encrypt::open_header(&key, &mut request).map_err(|e| e.to_string())?.ok_or("request header")?;
    let mut iv = [0u8; 16];
    let mut k = [0u8; 16];
    iv.copy_from_slice(&plain[1..17]);
    k.copy_from_slice(&plain[17..33]);
    let session = ServerSession::new(iv, k, plain[33]);
    let opens = list(spec, "opens");
    let mut wire = src.to_vec();
    // opens[0] = header length plaintext (2 bytes), opens[1] = header plaintext
    if let Some(Some(len_pt)) = opens.first() {
        let len_key = kdf::kdf16(&session.response_body_key, vec![kdf::SALT_AEAD_RESP_HEADER_LEN_KEY]);
        let len_iv: [u8; 12] = kdf::kdfn(&session.response_body_iv, vec![kdf::SALT_AEAD_RESP_HEADER_LEN_IV]);
        let sealed_len = Aes128Gcm::new_from_slice(&len_key).map_err(|e| e.to_string())?.encrypt(&len_iv.into(), Payload { msg: len_pt, aad: &[] }).map_err(|e| e.to_string())?;
        let mut out = sealed_len;
        if let Some(Some(hdr_pt)) = opens.get(1) {
            let hk = kdf::kdf16(&session.response_body_key, vec![kdf::SALT_AEAD_RESP_HEADER_PAYLOAD_KEY]);
            let hiv: [u8; 12] = kdf::kdfn(&session.response_body_iv, vec![kdf::SALT_AEAD_RESP_HEADER_PAYLOAD_IV]);
            let mut hdr = hdr_pt.clone();
            if !hdr.is_empty() && spec["vars"]["resp_hdr_match"].as_bool() != Some(false) {
                hdr[0] = plain[33];
            }
            out.extend_from_slice(&Aes128Gcm::new_from_slice(&hk).map_err(|e| e.to_string())?.encrypt(&hiv.into(), Payload { msg: &hdr, aad: &[] }).map_err(|e| e.to_string())?);
            let consumed = 18 + hdr_pt.len() + 16;
            if wire.len() > consumed {
                out.extend_from_slice(&wire[consumed..]);
            }
        } else if wire.len() > 18 {
            out.extend_from_slice(&wire[18..]);
        }
        wire = out;
    }
    verif::script_opens(Some(opens.into_iter().skip(2).collect()));
    let shake: Vec<u16> = list(spec, "xof").into_iter().map(|x| x.map(|b| u16::from_be_bytes([*b.first().unwrap_or(&0), *b.get(1).unwrap_or(&0)])).unwrap_or(0)).collect();
    verif::script_shake(Some(shake));
    let mut wire = BytesMut::from(&wire[..]);
    let r = client.decode(&mut wire).map(|o| crate::decode::item_of(&o)).map_err(|e| e.to_string());
    verif::script_shake(None);
    r
}

pub fn read_address(src: &mut BytesMut) -> Result<bool, String> {
    let mut b = src.split_off(0).freeze();
    octo_squirrel::protocol::vmess::address::read_address_port(&mut b).map(|o| crate::decode::item_of(&o)).map_err(|e| e.to_string())
}
