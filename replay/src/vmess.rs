use serde_json::Value;
use tokio_util::bytes::BytesMut;

pub fn server_decode(_spec: &Value, _cfg: &Value, _src: &mut BytesMut) -> Result<(), String> {
    Err("vmess_server replay not implemented".to_owned())
}

pub fn client_decode(_spec: &Value, _cfg: &Value, _src: &mut BytesMut) -> Result<(), String> {
    Err("vmess_client replay not implemented".to_owned())
}

pub fn read_address(src: &mut BytesMut) -> Result<(), String> {
    let mut b = src.split_off(0).freeze();
    octo_squirrel::protocol::vmess::address::read_address_port(&mut b).map(|_| ()).map_err(|e| e.to_string())
}
