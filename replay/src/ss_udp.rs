use octo_squirrel::codec::aead::CipherKind;
use octo_squirrel::codec::shadowsocks::udp::AEADCipherCodec;
use octo_squirrel::codec::shadowsocks::udp::Context;
use octo_squirrel::codec::shadowsocks::udp::Session;
use octo_squirrel::codec::shadowsocks::udp::SessionCodec;
use octo_squirrel::protocol::address::Address;
use octo_squirrel::protocol::shadowsocks::Mode;
use octo_squirrel_client::client::verif::shadowsocks_udp::DatagramPacketCodec;
use serde_json::Value;
use tokio_util::bytes::BytesMut;
use tokio_util::codec::Decoder;

/// C11: a repeated packet id must be dropped by the client's datagram codec, not turned into an error
/// (an error ends the reply task of the binding).
pub fn client_refused_id(_spec: &Value) -> Result<Option<String>, String> {
    let key = [7u8; 16];
    let ik: Vec<[u8; 16]> = vec![];
    let kind = CipherKind::Aead2022Blake3Aes128Gcm;
    let server = SessionCodec::<16>::new(Context::new(Mode::Server, None, &key, &ik), AEADCipherCodec::new(kind));
    let mut client = DatagramPacketCodec::new(SessionCodec::new(Context::new(Mode::Client, None, &key, &ik), AEADCipherCodec::new(kind)));
    let addr = Address::Socket("1.2.3.4:53".parse().unwrap());
    let mk = |pid: u64| {
        let mut dst = BytesMut::new();
        server.encode((BytesMut::from(&b"x"[..]), addr.clone(), Session::new(1, 2, pid, None)), &mut dst).map_err(|e| e.to_string())?;
        Ok::<BytesMut, String>(dst)
    };
    let r1 = client.decode(&mut mk(5)?);
    let r2 = client.decode(&mut mk(5)?);
    let r3 = client.decode(&mut mk(6)?);
    match (&r1, &r2, &r3) {
        (Ok(Some(_)), Err(e), _) => Ok(Some(format!("datagram repeating packet id 5 makes decode return Err ({e}); the reply task ends on Err"))),
        (Ok(Some(_)), Ok(None), Ok(Some(_))) => Ok(None),
        (Ok(Some(_)), Ok(Some(_)), _) => Ok(Some("datagram repeating packet id 5 was delivered twice".to_owned())),
        _ => Err(format!("unexpected: {:?} {:?} {:?}", r1.as_ref().map(|o| o.is_some()).map_err(|e| e.to_string()), r2.as_ref().map(|o| o.is_some()).map_err(|e| e.to_string()), r3.as_ref().map(|o| o.is_some()).map_err(|e| e.to_string()))),
    }
}
