//! entry `compose`: the real client encoder writes the model's application writes, the real server decoder reads them through
//! the real FramedRead in the model's segmentation (real ciphers end to end, nothing scripted); the items are compared with
//! what was written and with the requested target.
use std::sync::Arc;

use octo_squirrel::codec::shadowsocks::tcp as sstcp;
use octo_squirrel::protocol::address::Address;
use octo_squirrel::protocol::shadowsocks::Mode;
use octo_squirrel_client::client::verif::shadowsocks_tcp::PayloadCodec as ClientPayloadCodec;
use octo_squirrel_server::server::verif::InboundIn;
use octo_squirrel_server::server::verif::ShadowsocksPayloadCodec;
use serde_json::Value;
use serde_json::json;
use tokio_util::bytes::BytesMut;
use tokio_util::codec::Decoder;
use tokio_util::codec::Encoder;

use crate::decode::bytes_of;
use crate::decode::kind_of;
use crate::framed::FnDecoder;
use crate::framed::drive;

pub fn address_of(spec: &Value) -> Address {
    let port = spec["port"].as_u64().unwrap_or(0) as u16;
    if let Some(ip) = spec["ip4"].as_array() {
        let b: Vec<u8> = ip.iter().map(|x| x.as_u64().unwrap_or(0) as u8).collect();
        return Address::Socket(std::net::SocketAddr::from(([b[0], b[1], b[2], b[3]], port)));
    }
    if let Some(ip) = spec["ip6"].as_array() {
        let b: Vec<u8> = ip.iter().map(|x| x.as_u64().unwrap_or(0) as u8).collect();
        let mut a = [0u8; 16];
        a.copy_from_slice(&b[..16]);
        return Address::Socket(std::net::SocketAddr::from((a, port)));
    }
    let host = bytes_of(&spec["host"]);
    let name = String::from_utf8(host.clone()).unwrap_or_else(|_| "a".repeat(host.len()));
    Address::Domain(name, port)
}

pub fn tag_item(item: InboundIn) -> (Vec<u8>, Option<Address>) {
    match item {
        InboundIn::ConnectTcp(b, a) => ([vec![0u8], b.to_vec()].concat(), Some(a)),
        InboundIn::RelayTcp(b) => ([vec![1u8], b.to_vec()].concat(), None),
        InboundIn::RelayUdp(b, a) => ([vec![2u8], b.to_vec()].concat(), Some(a)),
    }
}

pub fn run(spec: &Value) -> Result<Option<String>, String> {
    match spec["proto"].as_str() {
        Some("ss_tcp") => {
            if spec["N"].as_u64() == Some(16) {
                ss_tcp::<16>(spec)
            } else {
                ss_tcp::<32>(spec)
            }
        }
        other => Err(format!("compose: unknown proto {other:?}")),
    }
}

fn ss_tcp<const N: usize>(spec: &Value) -> Result<Option<String>, String> {
    let kind = kind_of(spec["kind"].as_str().unwrap_or(""))?;
    let addr = address_of(spec);
    let context = Arc::new(sstcp::Context::<N>::new([7u8; N], vec![], kind, None));
    let mut client = ClientPayloadCodec::<N>::new(context.clone(), Mode::Client, Some(addr.clone()));
    let mut wire = BytesMut::new();
    let mut written: Vec<u8> = vec![];
    for w in spec["writes"].as_array().cloned().unwrap_or_default() {
        let b = bytes_of(&w);
        written.extend_from_slice(&b);
        client.encode(BytesMut::from(&b[..]), &mut wire).map_err(|e| format!("client encoder refused a write: {e}"))?;
    }
    let mut server = ShadowsocksPayloadCodec::<N>::new(context, Mode::Server, None);
    let target = std::rc::Rc::new(std::cell::RefCell::new(None));
    let t2 = target.clone();
    let dec = FnDecoder(move |src: &mut BytesMut| {
        server.decode(src).map(|o| {
            o.map(|item| {
                let (bytes, a) = tag_item(item);
                if bytes[0] == 0 {
                    *t2.borrow_mut() = a;
                }
                bytes
            })
        })
    });
    let mut spec2 = spec.clone();
    spec2["src"] = json!(wire.to_vec());
    let out = drive(dec, &spec2);
    if let Some(e) = &out.error {
        return Ok(Some(format!("the real server decoder refuses what the real client wrote: {e}")));
    }
    let first = out.items.first().map(|i| i[0]);
    if first != Some(0) {
        return Ok(Some(format!(
            "the real client wrote {} bytes for {} in {} writes ({} bytes on the wire, all delivered); the real server decoder yields {} items and no connect item",
            written.len(),
            addr,
            spec["writes"].as_array().map(|a| a.len()).unwrap_or(0),
            wire.len(),
            out.items.len()
        )));
    }
    let got = target.borrow().clone();
    if got.as_ref().map(|a| a.to_string()) != Some(addr.to_string()) {
        return Ok(Some(format!("the server would dial {:?} instead of {}", got.map(|a| a.to_string()), addr)));
    }
    let released: Vec<u8> = out.items.iter().flat_map(|i| i[1..].to_vec()).collect();
    if released != written {
        return Ok(Some(format!("the server released {} bytes that differ from the {} bytes written", released.len(), written.len())));
    }
    Ok(None)
}

/// entry `ss_chunk_limit`: the real encoder writes `len` bytes; with chunks of at most `limit` bytes the stream needs at least
/// ceil(T / limit) chunks of 34 bytes overhead each - fewer bytes on the wire mean some chunk exceeds the sender limit
pub fn ss_chunk_limit(spec: &Value) -> Result<Option<String>, String> {
    if spec["N"].as_u64() == Some(16) { chunk_limit::<16>(spec) } else { chunk_limit::<32>(spec) }
}

fn chunk_limit<const N: usize>(spec: &Value) -> Result<Option<String>, String> {
    let kind = kind_of(spec["kind"].as_str().unwrap_or(""))?;
    let len = spec["len"].as_u64().unwrap_or(0) as usize;
    let limit = spec["limit"].as_u64().unwrap_or(0x3fff) as usize;
    let client = spec["mode"].as_str() != Some("Server");
    let context = sstcp::Context::<N>::new([7u8; N], vec![], kind, None);
    let addr = Address::Socket("1.2.3.4:80".parse().unwrap());
    let session = sstcp::Session::<N>::new(if client { Mode::Client } else { Mode::Server }, sstcp::Identity::default(), if client { Some(addr) } else { None });
    let mut codec = sstcp::AEADCipherCodec::<N>::default();
    let mut wire = BytesMut::new();
    codec.encode(&context, &session, BytesMut::from(&vec![0x5a; len][..]), &mut wire).map_err(|e| e.to_string())?;
    if kind.is_aead_2022() {
        return Ok(None);
    }
    let total = len + if client { 7 } else { 0 };
    let need = N + total + 34 * total.div_ceil(limit);
    if wire.len() < need {
        Ok(Some(format!(
            "a write of {} bytes is emitted in {} bytes: with chunks of at most {} bytes at least {} are needed, so a payload chunk exceeds the sender limit of the AEAD-cipher specification",
            len,
            wire.len(),
            limit,
            need
        )))
    } else {
        Ok(None)
    }
}

/// entry `eih_chain`: identity headers the real client encoder emits for a chain of identity keys, against an independent
/// computation (BLAKE3 derive_key / hash from the blake3 crate, one AES-ECB block)
pub fn eih_chain(spec: &Value) -> Result<Option<String>, String> {
    if spec["N"].as_u64() == Some(16) { eih::<16>(spec) } else { eih::<32>(spec) }
}

fn eih<const N: usize>(spec: &Value) -> Result<Option<String>, String> {
    let kind = kind_of(spec["kind"].as_str().unwrap_or(""))?;
    let nkeys = spec["nkeys"].as_u64().unwrap_or(1) as usize;
    let key = [0x11u8; N];
    let iks: Vec<[u8; N]> = (0..nkeys).map(|i| [0x21u8 + i as u8; N]).collect();
    let context = sstcp::Context::<N>::new(key, iks.clone(), kind, None);
    let identity = sstcp::Identity::<N>::default();
    let salt = identity.salt;
    let session = sstcp::Session::<N>::new(Mode::Client, identity, Some(Address::Socket("1.2.3.4:80".parse().unwrap())));
    let mut codec = sstcp::AEADCipherCodec::<N>::default();
    let mut wire = BytesMut::new();
    codec.encode(&context, &session, BytesMut::from(&b"x"[..]), &mut wire).map_err(|e| e.to_string())?;
    let mut chain: Vec<[u8; N]> = iks.clone();
    chain.push(key);
    for i in 0..nkeys {
        let mut material = chain[i].to_vec();
        material.extend_from_slice(&salt);
        let sub_key = blake3::derive_key("shadowsocks 2022 identity subkey", &material);
        let mut block = [0u8; 16];
        block.copy_from_slice(&blake3::hash(&chain[i + 1]).as_bytes()[..16]);
        if N == 16 {
            octo_squirrel::crypto::Aes128EcbNoPadding::encrypt(&sub_key, &mut block, 16);
        } else {
            octo_squirrel::crypto::Aes256EcbNoPadding::encrypt(&sub_key, &mut block, 16);
        }
        let at = N + 16 * i;
        if wire.len() < at + 16 || wire[at..at + 16] != block {
            return Ok(Some(format!("identity header {i} of a chain of {nkeys} identity keys differs from AES-ECB(identity subkey of key {i}, BLAKE3(key {})[..16])", i + 1)));
        }
    }
    Ok(None)
}

/// entry `ss_encode_capacity`: the real encoder writing into a buffer that has 1..=17 bytes of spare capacity after the salt
/// (what a long-lived Framed write buffer eventually looks like); a panic propagates to main and is the reproduction
pub fn ss_encode_capacity(spec: &Value) -> Result<Option<String>, String> {
    if spec["N"].as_u64() == Some(16) { encode_capacity::<16>(spec) } else { encode_capacity::<32>(spec) }
}

fn encode_capacity<const N: usize>(spec: &Value) -> Result<Option<String>, String> {
    let kind = kind_of(spec["kind"].as_str().unwrap_or(""))?;
    let client = spec["mode"].as_str() != Some("Server");
    for spare in 1..=17usize {
        for prefill in [0usize, 5, 100] {
            let context = sstcp::Context::<N>::new([7u8; N], vec![], kind, None);
            let addr = Address::Socket("1.2.3.4:80".parse().unwrap());
            let session = sstcp::Session::<N>::new(if client { Mode::Client } else { Mode::Server }, sstcp::Identity::default(), if client { Some(addr) } else { None });
            let mut codec = sstcp::AEADCipherCodec::<N>::default();
            let mut wire = BytesMut::with_capacity(prefill + N + spare);
            wire.extend_from_slice(&vec![0u8; prefill]);
            codec.encode(&context, &session, BytesMut::from(&b"hello"[..]), &mut wire).map_err(|e| e.to_string())?;
            // a second write into whatever capacity is left
            let cap = wire.capacity();
            let _ = cap;
            codec.encode(&context, &session, BytesMut::from(&b"world"[..]), &mut wire).map_err(|e| e.to_string())?;
        }
    }
    Ok(None)
}
