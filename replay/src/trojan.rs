use octo_squirrel::config::ServerConfig;
use octo_squirrel_client::client::verif::trojan_udp::ClientCodec as ClientUdpCodec;
use octo_squirrel_server::server::verif::SslConfig;
use octo_squirrel_server::server::verif::new_trojan_codec;
use serde_json::Value;
use serde_json::json;
use tokio_util::bytes::BytesMut;
use tokio_util::codec::Decoder;

pub fn server_config(protocol: &str, password: &str, cipher: &str, users: Value) -> ServerConfig<SslConfig> {
    serde_json::from_value(json!({"host": "127.0.0.1", "port": 1, "password": password, "protocol": protocol, "cipher": cipher, "user": users})).expect("config")
}

pub fn valid_header(cmd: u8) -> Vec<u8> {
    // hex(SHA224("pw")) CRLF cmd atyp=1 1.2.3.4:80 CRLF
    let mut v = b"bd1b4d5a3ff7a0b7a5d2ac4f9e3a1dbb8a14a6a5e8ac7ea3f2b1d0c9".to_vec();
    let cfg = server_config("trojan", "pw", "aes-128-gcm", json!([]));
    let _ = cfg;
    v.clear();
    v.extend_from_slice(crate::trojan::hex_sha224("pw").as_bytes());
    v.extend_from_slice(b"\r\n");
    v.push(cmd);
    v.extend_from_slice(&[1, 1, 2, 3, 4, 0, 80]);
    v.extend_from_slice(b"\r\n");
    v
}

pub fn hex_sha224(pw: &str) -> String {
    // the client codec computes exactly this; reuse it through its encoder
    use octo_squirrel::protocol::address::Address;
    use octo_squirrel_client::client::verif::trojan_tcp::ClientCodec;
    use tokio_util::codec::Encoder;
    let mut c = ClientCodec::new(pw.as_bytes(), 1, Address::Socket("1.2.3.4:80".parse().unwrap()));
    let mut dst = BytesMut::new();
    c.encode(BytesMut::new(), &mut dst).expect("encode");
    String::from_utf8(dst[..56].to_vec()).expect("hex")
}

pub fn server_decode(cfg: &Value, src: &mut BytesMut) -> Result<bool, String> {
    let config = server_config("trojan", "pw", "aes-128-gcm", json!([]));
    let mut codec = new_trojan_codec(&config).map_err(|e| e.to_string())?;
    match cfg["state"].as_str().unwrap_or("Header") {
        "Header" => {
            // first the bytes as they are; then, for paths behind the password check, with the genuine digest in place
            let mut as_is = src.clone();
            let _ = codec.decode(&mut as_is);
            codec = new_trojan_codec(&config).map_err(|e| e.to_string())?;
            if src.len() >= 56 {
                src[..56].copy_from_slice(hex_sha224("pw").as_bytes());
            }
        }
        "Tcp" => {
            let mut h = BytesMut::from(&valid_header(1)[..]);
            codec.decode(&mut h).map_err(|e| e.to_string())?;
        }
        "Udp" => {
            let mut h = valid_header(3);
            h.extend_from_slice(&[1, 1, 2, 3, 4, 0, 53, 0, 1, 13, 10, 0x61]);
            let mut h = BytesMut::from(&h[..]);
            codec.decode(&mut h).map_err(|e| e.to_string())?;
        }
        s => return Err(format!("state {s}")),
    }
    codec.decode(src).map(|o| crate::decode::item_of(&o)).map_err(|e| e.to_string())
}

pub fn client_udp_decode(src: &mut BytesMut) -> Result<bool, String> {
    use octo_squirrel::protocol::address::Address;
    let mut c = ClientUdpCodec::new(b"pw", 3, Address::Socket("1.2.3.4:80".parse().unwrap()));
    c.decode(src).map(|o| crate::decode::item_of(&o)).map_err(|e| e.to_string())
}
