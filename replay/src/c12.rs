//! C12 replays: nonce generator arithmetic, packet-id exhaustion, reply decoding vs. send counters
use octo_squirrel::codec::aead::CountingNonceGenerator;
use octo_squirrel::codec::aead::IncreasingNonceGenerator;
use octo_squirrel::codec::shadowsocks::udp::Session;
use serde_json::Value;

use crate::decode::bytes_of;

pub fn increasing_nonce(spec: &Value) -> Result<Option<String>, String> {
    // the generator's field is private: reach the model's state by stepping from init() is impossible for arbitrary states,
    // so the arithmetic is checked on the states reachable in a few hundred steps plus the carry boundaries reachable by 2^16+2 steps
    let mut g = IncreasingNonceGenerator::init();
    let mut expect: u128 = 0;
    for step in 0..70000u32 {
        let got = g.generate().to_vec();
        let mut want = [0u8; 12];
        want.copy_from_slice(&expect.to_le_bytes()[..12]);
        if got != want {
            return Ok(Some(format!("step {step}: generator produced {:?}, a 96-bit little-endian counter gives {:?}", got, want)));
        }
        expect += 1;
    }
    let _ = spec;
    Ok(None)
}

pub fn counting_nonce(spec: &Value) -> Result<Option<String>, String> {
    let count = spec["count"].as_u64().unwrap_or(0) as u16;
    let mut buf = bytes_of(&spec["buf"]);
    buf.resize(16, 0xAA);
    let orig = buf.clone();
    let mut g = CountingNonceGenerator::new(12);
    // bring the generator to `count` over a scratch buffer, then generate over the model's buffer
    let mut scratch = [0u8; 16];
    for _ in 0..count {
        g.generate(&mut scratch);
    }
    let ret = g.generate(&mut buf).to_vec();
    let mut want = orig.clone();
    want[..2].copy_from_slice(&count.to_be_bytes());
    if buf != want || ret != want[..12] {
        return Ok(Some(format!("counter {count} over buffer {:?}: nonce {:?}, expected {:?}", &orig[..4], &buf[..12], &want[..12])));
    }
    let mut next = [0u8; 16];
    g.generate(&mut next);
    if next[..2] != count.wrapping_add(1).to_be_bytes() {
        return Ok(Some(format!("after counter {count} the next nonce starts with {:?}", &next[..2])));
    }
    Ok(None)
}

pub fn packet_id_wrap(_spec: &Value) -> Result<Option<String>, String> {
    let mut s: Session<16> = Session::new(1, 2, u64::MAX, None);
    let before = s.packet_id;
    let r = format!("{:?}", s.increase_packet_id());
    if !r.starts_with("Err") && s.packet_id <= before {
        return Ok(Some(format!("packet id after u64::MAX is {} and the session carries on (ids repeat)", s.packet_id)));
    }
    Ok(None)
}
