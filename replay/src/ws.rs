//! entry `ws_framed`: the real WebSocketFramed round the real Trojan server codec over an in-memory duplex pipe and the real
//! tokio-websockets acceptor. Three message scripts of one valid Trojan UDP stream (header + datagrams) are delivered, after
//! which the transport goes quiet; every complete datagram must have been yielded by then, whole and in order:
//!   A  two complete datagrams in one message;   B  a datagram split over two messages;
//!   C  a message carrying a complete datagram plus the first bytes of the next one, then the rest.
use std::time::Duration;

use futures::StreamExt;
use octo_squirrel::codec::WebSocketFramed;
use octo_squirrel_server::server::verif::InboundIn;
use octo_squirrel_server::server::verif::OutboundIn;
use octo_squirrel_server::server::verif::TrojanServerCodec;
use octo_squirrel_server::server::verif::new_trojan_codec;
use serde_json::Value;
use tokio::io::AsyncReadExt;
use tokio::io::AsyncWriteExt;
use tokio::io::DuplexStream;
use tokio_websockets::ServerBuilder;

fn ws_binary(payload: &[u8]) -> Vec<u8> {
    let mut frame = vec![0x82];
    if payload.len() < 126 {
        frame.push(0x80 | payload.len() as u8);
    } else {
        frame.push(0x80 | 126);
        frame.extend_from_slice(&(payload.len() as u16).to_be_bytes());
    }
    frame.extend_from_slice(&[0, 0, 0, 0]);
    frame.extend_from_slice(payload);
    frame
}

fn datagram(payload: &[u8]) -> Vec<u8> {
    let mut v = vec![1, 1, 2, 3, 4, 0, 53];
    v.extend_from_slice(&(payload.len() as u16).to_be_bytes());
    v.extend_from_slice(b"\r\n");
    v.extend_from_slice(payload);
    v
}

type Inbound = WebSocketFramed<DuplexStream, TrojanServerCodec, OutboundIn, InboundIn>;

async fn connect() -> Result<(DuplexStream, Inbound), String> {
    let (mut client, server) = tokio::io::duplex(1 << 16);
    client
        .write_all(b"GET /ws HTTP/1.1\r\nHost: localhost\r\nUpgrade: websocket\r\nConnection: Upgrade\r\nSec-WebSocket-Key: dGhlIHNhbXBsZSBub25jZQ==\r\nSec-WebSocket-Version: 13\r\n\r\n")
        .await
        .map_err(|e| e.to_string())?;
    let (_, ws) = ServerBuilder::new().accept(server).await.map_err(|e| e.to_string())?;
    let mut response = Vec::new();
    while !response.ends_with(b"\r\n\r\n") {
        response.push(client.read_u8().await.map_err(|e| e.to_string())?);
    }
    let config = crate::trojan::server_config("trojan", "pw", "aes-128-gcm", serde_json::json!([]));
    Ok((client, WebSocketFramed::new(ws, new_trojan_codec(&config).map_err(|e| e.to_string())?)))
}

/// deliver the messages, then collect what is yielded until the adapter stays quiet for 300 ms
async fn receive(messages: &[Vec<u8>]) -> Result<Vec<Vec<u8>>, String> {
    let (mut client, mut inbound) = connect().await?;
    for m in messages {
        client.write_all(&ws_binary(m)).await.map_err(|e| e.to_string())?;
    }
    client.flush().await.map_err(|e| e.to_string())?;
    let mut got = Vec::new();
    loop {
        match tokio::time::timeout(Duration::from_millis(300), inbound.next()).await {
            Err(_) => return Ok(got),
            Ok(Some(Ok(InboundIn::RelayUdp(content, _)))) => got.push(content.to_vec()),
            Ok(Some(Ok(_))) => return Err("unexpected item kind".to_owned()),
            Ok(Some(Err(e))) => return Err(format!("decode error: {e}")),
            Ok(None) => return Ok(got),
        }
    }
}

pub fn run(_spec: &Value) -> Result<Option<String>, String> {
    let rt = tokio::runtime::Builder::new_current_thread().enable_all().build().map_err(|e| e.to_string())?;
    let header = crate::trojan::valid_header(3);
    let d1 = datagram(b"first datagram");
    let d2 = datagram(b"second datagram, a little longer");
    let want = vec![b"first datagram".to_vec(), b"second datagram, a little longer".to_vec()];
    let stream = [&header[..], &d1[..], &d2[..]].concat();
    let h1 = header.len() + d1.len();
    let scripts: Vec<(&str, Vec<Vec<u8>>)> = vec![
        ("two complete datagrams in one message", vec![stream.clone()]),
        ("second datagram split over two messages", vec![stream[..h1].to_vec(), stream[h1..h1 + 12].to_vec(), stream[h1 + 12..].to_vec()]),
        ("a complete datagram plus the first bytes of the next one, then the rest", vec![stream[..h1 + 9].to_vec(), stream[h1 + 9..].to_vec()]),
    ];
    for (name, msgs) in scripts {
        match rt.block_on(receive(&msgs)) {
            Ok(got) if got == want => {}
            Ok(got) => {
                return Ok(Some(format!(
                    "script \"{name}\": every byte of 2 datagrams was delivered in {} WebSocket messages, the transport went quiet, and {} datagram(s) had been yielded",
                    msgs.len(),
                    got.len()
                )))
            }
            Err(e) => return Ok(Some(format!("script \"{name}\": {e}"))),
        }
    }
    Ok(None)
}
