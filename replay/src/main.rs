//! Native replay of solver models against the real code.
//! usage: vf-replay <spec.json>   -> prints REPRODUCED: ... / NOT-REPRODUCED: ... ; exit 0 always unless the spec is unusable (exit 3)
use std::panic;

use serde_json::Value;

mod address;
mod c10;
mod c12;
mod c13;
mod c16;
mod compose;
mod decode;
mod framed;
mod packet_window;
mod ss_udp;
mod trojan;
mod vmess;
mod ws;

fn main() {
    let path = std::env::args().nth(1).expect("spec path");
    let text = std::fs::read_to_string(&path).expect("read spec");
    let spec: Value = serde_json::from_str(&text).expect("json");
    let entry = spec["entry"].as_str().unwrap_or("").to_owned();
    panic::set_hook(Box::new(|_| {}));
    let res = panic::catch_unwind(|| dispatch(&entry, &spec));
    match res {
        Ok(Ok(Some(detail))) => println!("REPRODUCED: {}", detail),
        Ok(Ok(None)) => println!("NOT-REPRODUCED"),
        Ok(Err(e)) => {
            println!("UNUSABLE: {}", e);
            std::process::exit(3)
        }
        Err(p) => {
            let msg = p.downcast_ref::<String>().cloned().or_else(|| p.downcast_ref::<&str>().map(|s| s.to_string())).unwrap_or_default();
            if spec["expect"].as_str() == Some("panic") || spec["expect"].is_null() {
                println!("REPRODUCED: panic: {}", msg)
            } else {
                println!("REPRODUCED: unexpected panic: {}", msg)
            }
        }
    }
}

/// Ok(Some(detail)) = the misbehaviour reproduced natively; Ok(None) = the real code behaves.
fn dispatch(entry: &str, spec: &Value) -> Result<Option<String>, String> {
    match entry {
        "packet_window_history" => packet_window::history(spec),
        "client_udp_refused_id" => ss_udp::client_refused_id(spec),
        "decode" => decode::run(spec),
        "framed" => framed::run(spec),
        "compose" => compose::run(spec),
        "ws_framed" => ws::run(spec),
        "ss_chunk_limit" => compose::ss_chunk_limit(spec),
        "eih_chain" => compose::eih_chain(spec),
        "ss_encode_capacity" => compose::ss_encode_capacity(spec),
        "address_roundtrip" => address::roundtrip(spec),
        "validate_timestamp" => c10::validate_timestamp(spec),
        "vmess_matching" => c10::vmess_matching(spec),
        "mode_bytes" => c10::mode_bytes(spec),
        "salt_retention" => c10::salt_retention(spec),
        "increasing_nonce" => c12::increasing_nonce(spec),
        "counting_nonce" => c12::counting_nonce(spec),
        "packet_id_wrap" => c12::packet_id_wrap(spec),
        "socks5_handshake" => c13::socks5_handshake(spec),
        "socks5_replies" => c13::socks5_replies(spec),
        "recognize_http" => c13::http(spec),
        "mode_predicate" => c16::mode_predicate(spec),
        "kind_predicate" => c16::kind_predicate(spec),
        "dispatch" => c16::dispatch(spec),
        "key_length" => c16::key_length(spec),
        "udp_legacy_key" => c16::udp_legacy_key(spec),
        _ => Err(format!("unknown entry {entry}")),
    }
}
